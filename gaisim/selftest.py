"""./check selftest determinism [N] [props...]: every seed is run twice, in separate worker pools of
different sizes, with full state digests after every op; the event logs must be identical."""
import json
import random
import sys

from . import runner
from .props import get_prop

DEFAULT_PROPS = ["C01", "C02", "C03", "C04", "C05", "C06", "C07", "C08", "C09", "C10", "C11", "C12", "C13", "C14", "C15",
                 "C19", "C20"]


def _task(args):
    prop_id, tier, seed, index = args
    prop = get_prop(prop_id)
    root = runner._fresh_dir("run")
    rs = runner.run_seed(seed, prop_id, tier, index)
    from . import engine as _engine
    _engine.NEXT_REPO_DIR = _engine.REPO_DIRS[(rs >> 17) % len(_engine.REPO_DIRS)]
    res = prop.run_generated(random.Random(rs), root, tier, index, full_digests=True)
    import shutil
    shutil.rmtree(root, ignore_errors=True)
    # the concrete trace (ops with contents, fault, recorded schedules of the controller) and the verdict are part of
    # what must repeat, not only the per-op state digests
    import hashlib
    tr = {k: v for k, v in res["trace"].items() if k not in ("violation",)}
    td = hashlib.sha256(json.dumps(tr, sort_keys=True, default=str).encode()).hexdigest()[:16]
    v = res.get("violation") or {}
    return {"prop": prop_id, "index": index, "events": (res.get("event_log") or []) + [["trace", td], ["verdict", v.get("monitor"), v.get("class")],
                                                                                       ["probes", sorted((res.get("probes") or {}).items())]],
            "viol": bool(res.get("violation")), "ops": len(res["trace"].get("ops", []))}


def run_batch(props, n, workers):
    import multiprocessing as mp
    base = runner.scratch_root() + ".st%02d" % workers
    import os
    os.makedirs(base, exist_ok=True)
    pool = mp.get_context("fork").Pool(workers, runner._worker_init, (base,))
    try:
        tasks = [(p, "quick", 1, i) for p in props for i in range(n)]
        out = pool.map(_task, tasks, chunksize=1)
    finally:
        pool.terminate()
        pool.join()
        import shutil
        shutil.rmtree(base, ignore_errors=True)
    return {(r["prop"], r["index"]): r for r in out}


def run_batches(props, n, workers):
    """one pool per property, as `./check <id>` runs them (a property's family list is fixed when its module is
    imported; mixing properties in one worker process would let the import order of another property change it)"""
    res = {}
    for p in props:
        res.update(run_batch([p], n, workers))
    return res


def main(argv):
    if not argv or argv[0] != "determinism":
        print("usage: ./check selftest determinism [N] [props...]")
        return 2
    n = int(argv[1]) if len(argv) > 1 else 8
    props = argv[2:] or DEFAULT_PROPS
    a = run_batches(props, n, 16)
    b = run_batches(props, n, 3)
    bad = 0
    total_events = 0
    for k in sorted(a):
        ea, eb = a[k]["events"], b[k]["events"]
        total_events += len(ea or [])
        if ea != eb:
            bad += 1
            first = next((i for i, (x, y) in enumerate(zip(ea or [], eb or [])) if x != y), None)
            print("NONDETERMINISTIC %s run %d: first differing event %s: %s vs %s" % (
                k[0], k[1], first, (ea or [None])[first or 0], (eb or [None])[first or 0]))
    print("determinism self-test: %d runs x2 (16 workers vs 3 workers), %d events compared, %d divergent" % (
        len(a), total_events, bad))
    return 0 if bad == 0 else 2
