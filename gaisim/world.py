"""World: one hermetic scratch universe in which git-ai, git and the stub agents run.

Everything a simulated command can see is constructed here: HOME, configuration, clock
(GIT_*_DATE and GIT_AI_VERIF_NOW_MS), the git stand-in, fault plans.  Nothing is inherited
from the caller's environment except PATH.
"""
import hashlib
import json
import os
import shutil
import signal
import subprocess

VERIF = os.path.dirname(os.path.dirname(os.path.abspath(__file__)))
GITAI = os.environ.get("GAISIM_GITAI", os.path.join(VERIF, ".build/gitai/debug/git-ai"))
SIMGIT = os.environ.get("GAISIM_SIMGIT", os.path.join(VERIF, ".build/sim/release/simgit"))
REAL_GIT = "/usr/bin/git"
EPOCH_MS = 1767225600000  # 2026-01-01T00:00:00Z
WATCHDOG_S = 60

AGENT_NAME = "simagent"


def session_hash(session, tool=AGENT_NAME):
    # generate_short_hash(agent_id.id, agent_id.tool) = sha256("<tool>:<id>")[:16]
    return hashlib.sha256(("%s:%s" % (tool, session)).encode()).hexdigest()[:16]


def _ignored_signals():
    """Signals the harness itself was started with SIG_IGN for (nohup, some CI runners): every simulated process would
    inherit that, and a git that cannot be killed by SIGHUP behaves differently from one that can.  The simulated
    world starts every process with default dispositions."""
    out = []
    for sig in (signal.SIGHUP, signal.SIGINT, signal.SIGQUIT, signal.SIGTERM, signal.SIGUSR1, signal.SIGUSR2, signal.SIGALRM):
        try:
            if signal.getsignal(sig) == signal.SIG_IGN:
                out.append(sig)
        except (ValueError, OSError):
            pass
    return out


_IGNORED = _ignored_signals()


def _reset_signals():
    for sig in _IGNORED:
        signal.signal(sig, signal.SIG_DFL)


PREEXEC = _reset_signals if _IGNORED else None


class Result:
    __slots__ = ("code", "out", "err", "hang")

    def __init__(self, code, out, err, hang=False):
        self.code, self.out, self.err, self.hang = code, out, err, hang

    def __repr__(self):
        return "Result(code=%r,out=%r,err=%r)" % (self.code, self.out[:200], self.err[:200])


class World:
    """mode: 'wrapper' (git = git-ai), 'hooks' (plain git + managed hooks), 'both' (the wrapper in a
    repository that also has the managed hooks installed), 'plain' (no git-ai)."""

    def __init__(self, root, mode="wrapper", prompt_storage="default", use_simgit=False,
                 gitconfig=None, config_extra=None, object_format=None):
        self.root = root
        self.object_format = object_format
        self.mode = mode
        self.home = os.path.join(root, "home")
        self.bin = os.path.join(root, "bin")
        self.hooks_log = os.path.join(root, "hooks.log")
        # GAISIM_EPOCH_MS (survey knob) / the world option `epoch_ms` move the start of simulated time
        self.now_ms = int(os.environ.get("GAISIM_EPOCH_MS") or EPOCH_MS)
        self.use_simgit = use_simgit
        self.prompt_storage = prompt_storage
        self.extra_env = {}
        self.counters = {"git": 0, "ckpt": 0, "obs": 0}
        self.hang = False
        os.makedirs(os.path.join(self.home, ".git-ai"), exist_ok=True)
        os.makedirs(self.bin, exist_ok=True)
        cfg = {
            "git_path": SIMGIT if use_simgit else REAL_GIT,
            "prompt_storage": prompt_storage,
            "telemetry_oss": "off",
            "disable_version_checks": True,
            "disable_auto_updates": True,
        }
        if config_extra:
            cfg.update(config_extra)
        self.config = cfg
        self.write_config()
        lines = ["[user]", "\tname = Sim Human", "\temail = human@example.invalid",
                 "[init]", "\tdefaultBranch = main", "[gc]", "\tauto = 0",
                 "[maintenance]", "\tauto = false", "[advice]", "\tdetachedHead = false",
                 "\tskippedCherryPicks = false", "[protocol \"file\"]", "\tallow = always",
                 "[core]", "\teditor = true", "[merge]", "\tconflictstyle = merge"]
        for sect, key, val in (gitconfig or []):
            lines.append("[%s]" % sect)
            lines.append("\t%s = %s" % (key, str(val).replace("{ROOT}", root)))
        with open(os.path.join(self.home, ".gitconfig"), "w") as f:
            f.write("\n".join(lines) + "\n")
        link = os.path.join(self.bin, "git")
        if not os.path.lexists(link):
            os.symlink(GITAI, link)

    def write_config(self):
        with open(os.path.join(self.home, ".git-ai", "config.json"), "w") as f:
            json.dump(self.config, f, sort_keys=True)

    def set_simgit(self, on):
        self.use_simgit = on
        self.config["git_path"] = SIMGIT if on else REAL_GIT
        self.write_config()

    # ------------------------------------------------------------------ environment
    def env(self, extra=None):
        secs = self.now_ms // 1000
        e = {
            "PATH": "/usr/local/bin:/usr/bin:/bin",
            "HOME": self.home,
            "GIT_CONFIG_GLOBAL": os.path.join(self.home, ".gitconfig"),
            "GIT_CONFIG_NOSYSTEM": "1",
            "GIT_AUTHOR_DATE": "@%d +0000" % secs,
            "GIT_COMMITTER_DATE": "@%d +0000" % secs,
            "GIT_EDITOR": "true",
            "GIT_TERMINAL_PROMPT": "0",
            "LC_ALL": "C",
            "TZ": "UTC",
            "BLOCKING_MAX_THREADS": "1",
            "GIT_AI_DEBUG": "0",
            "GIT_AI_REWRITE_STASH": "true",
            "GIT_AI_TEST_DB_PATH": os.path.join(self.home, ".git-ai", "internal", "db"),
            "GITAI_TEST_DB_PATH": os.path.join(self.home, ".git-ai", "internal", "db"),
            "GIT_AI_FLUSH_LOGS_WORKER": "1",
            "GIT_AI_SKIP_AUTO_UPDATE": "1",
            "GIT_AI_VERIF_NOW_MS": str(self.now_ms),
            "SIMGIT_REAL": REAL_GIT,
            "HOOKS_LOG": self.hooks_log,
        }
        if self.mode in ("hooks", "both"):
            e["GIT_AI_GLOBAL_GIT_HOOKS"] = "true"
        if os.environ.get("GAISIM_PROFILE_FILE"):
            # reach measurement only (tools/coverage.sh): where a coverage-instrumented git-ai writes its counters
            e["LLVM_PROFILE_FILE"] = os.environ["GAISIM_PROFILE_FILE"]
        e.update(self.extra_env)
        if extra:
            e.update(extra)
        return e

    def tick(self, ms):
        self.now_ms += ms

    # ------------------------------------------------------------------ process spawning
    def _spawn(self, argv, cwd, env, stdin=None, timeout=WATCHDOG_S):
        try:
            p = subprocess.Popen(argv, cwd=cwd, env=env, stdin=subprocess.PIPE,
                                 stdout=subprocess.PIPE, stderr=subprocess.PIPE,
                                 start_new_session=True, preexec_fn=PREEXEC)
        except OSError as ex:
            return Result(127, "", str(ex))
        try:
            out, err = p.communicate(stdin if stdin is not None else b"", timeout=timeout)
        except subprocess.TimeoutExpired:
            try:
                os.killpg(p.pid, signal.SIGKILL)
            except OSError:
                pass
            out, err = p.communicate()
            self.hang = True
            return Result(-999, out.decode("utf-8", "replace"), err.decode("utf-8", "replace"), True)
        return Result(p.returncode, out.decode("utf-8", "replace"), err.decode("utf-8", "replace"))

    def raw_git(self, repo, *args, stdin=None, env=None):
        """Observation / plain git: real git, never through git-ai, never advances the clock."""
        self.counters["obs"] += 1
        e = self.env(env)
        e.pop("GIT_AI_GLOBAL_GIT_HOOKS", None)
        return self._spawn([REAL_GIT] + list(args), repo, e, stdin)

    def git(self, repo, *args, env=None, stdin=None, mode=None):
        """A user-level git command in this world's deployment mode."""
        self.counters["git"] += 1
        mode = mode or self.mode
        e = self.env(env)
        if mode in ("wrapper", "both"):
            return self._spawn([os.path.join(self.bin, "git")] + list(args), repo, e, stdin)
        return self._spawn([REAL_GIT] + list(args), repo, e, stdin)

    def gitai(self, repo, *args, env=None, stdin=None):
        return self._spawn([GITAI] + list(args), repo, self.env(env), stdin)

    # ------------------------------------------------------------------ repository setup
    def init_repo(self, name="r0", bare=False):
        repo = os.path.join(self.root, name)
        os.makedirs(repo, exist_ok=True)
        args = ["init", "-q"] + (["--bare"] if bare else []) + \
            (["--object-format=" + self.object_format] if self.object_format else [])
        r = self.raw_git(repo, *args)
        assert r.code == 0, r
        if not bare and self.mode in ("hooks", "both"):
            self.ensure_hooks(repo)
        return repo

    def ensure_hooks(self, repo):
        r = self.gitai(repo, "git-hooks", "ensure")
        assert r.code == 0, r

    # ------------------------------------------------------------------ files
    def write(self, repo, path, content):
        full = os.path.join(repo, path)
        os.makedirs(os.path.dirname(full) or repo, exist_ok=True)
        data = content if isinstance(content, bytes) else content.encode("utf-8")
        with open(full, "wb") as f:
            f.write(data)

    def read(self, repo, path):
        try:
            with open(os.path.join(repo, path), "rb") as f:
                return f.read().decode("utf-8", "replace")
        except OSError:
            return None

    # ------------------------------------------------------------------ checkpoints (stub agents)
    def ckpt_human(self, repo, files, env=None):
        if self.mode == "plain":
            return Result(0, "", "")
        self.counters["ckpt"] += 1
        payload = {"type": "human", "repo_working_dir": repo, "will_edit_filepaths": list(files)}
        return self.gitai(repo, "checkpoint", "agent-v1", "--hook-input", json.dumps(payload), env=env)

    def ai_payload(self, repo, files, session, transcript=None, model="m1", tool=AGENT_NAME, dirty=None):
        msgs = transcript if transcript is not None else [
            {"type": "user", "text": "please edit (%s)" % session},
            {"type": "assistant", "text": "done (%s)" % session}]
        p = {"type": "ai_agent", "repo_working_dir": repo, "edited_filepaths": list(files),
             "transcript": {"messages": msgs}, "agent_name": tool, "model": model,
             "conversation_id": session}
        if dirty:
            # unsaved editor buffers: path (absolute, as editors report it) -> buffer content
            p["dirty_files"] = {os.path.join(repo, k): v for k, v in sorted(dirty.items())}
        return p

    def ckpt_ai(self, repo, files, session, transcript=None, model="m1", tool=AGENT_NAME, env=None, dirty=None):
        if self.mode == "plain":
            return Result(0, "", "")
        self.counters["ckpt"] += 1
        payload = self.ai_payload(repo, files, session, transcript, model, tool, dirty=dirty)
        return self.gitai(repo, "checkpoint", "agent-v1", "--hook-input", json.dumps(payload), env=env)

    def claude_transcript_path(self, session):
        d = os.path.join(self.root, "transcripts")
        os.makedirs(d, exist_ok=True)
        return os.path.join(d, "%s.jsonl" % session)

    def claude_append_transcript(self, session, messages):
        """the agent's own transcript file, which git-ai re-reads at commit time"""
        with open(self.claude_transcript_path(session), "a") as f:
            for i, m in enumerate(messages):
                if m.get("type") == "user":
                    rec = {"type": "user", "sessionId": session, "message": {"role": "user", "content": m["text"]},
                           "uuid": "u%d-%d" % (self.now_ms, i), "timestamp": "2026-01-01T00:00:00.000Z"}
                else:
                    rec = {"type": "assistant", "sessionId": session,
                           "message": {"role": "assistant", "model": "claude-sim", "type": "message",
                                       "content": [{"type": "text", "text": m["text"]}]},
                           "uuid": "a%d-%d" % (self.now_ms, i), "timestamp": "2026-01-01T00:00:01.000Z"}
                f.write(json.dumps(rec) + "\n")

    def ckpt_claude(self, repo, files, session, event, env=None):
        if self.mode == "plain":
            return Result(0, "", "")
        self.counters["ckpt"] += 1
        payload = {"cwd": repo, "hook_event_name": event, "session_id": session, "tool_name": "Edit",
                   "tool_input": {"file_path": os.path.join(repo, files[0])},
                   "transcript_path": self.claude_transcript_path(session)}
        return self.gitai(repo, "checkpoint", "claude", "--hook-input", json.dumps(payload), env=env)

    # ------------------------------------------------------------------ observations
    def head(self, repo, rev="HEAD"):
        r = self.raw_git(repo, "rev-parse", "--verify", "-q", rev)
        return r.out.strip() if r.code == 0 else None

    def blame_json(self, repo, path, extra=()):
        """{line_no(int) -> session_hash} for AI lines, via git-ai blame --json.  None on failure."""
        r = self.gitai(repo, "blame", "--json", *extra, path)
        if r.code != 0:
            return None, r
        try:
            d = json.loads(r.out)
        except ValueError:
            return None, r
        lines = {}
        prompts = d.get("prompts", {})
        for rng, h in d.get("lines", {}).items():
            if "-" in rng:
                a, b = rng.split("-")
            else:
                a = b = rng
            for n in range(int(a), int(b) + 1):
                lines[n] = h
        return (lines, prompts), r

    def note_raw(self, repo, sha):
        r = self.raw_git(repo, "notes", "--ref=ai", "show", sha)
        return r.out if r.code == 0 else None

    def notes_list(self, repo, ref="refs/notes/ai"):
        """[(note_blob, object)]"""
        r = self.raw_git(repo, "notes", "--ref=" + ref, "list")
        if r.code != 0:
            return []
        out = []
        for line in r.out.splitlines():
            parts = line.split()
            if len(parts) == 2:
                out.append((parts[0], parts[1]))
        return out

    def tracked_files(self, repo, rev=None):
        if rev:
            r = self.raw_git(repo, "ls-tree", "-r", "-z", "--name-only", rev)
        else:
            r = self.raw_git(repo, "ls-files", "-z")
        return [p for p in r.out.split("\0") if p]

    def ai_dir(self, repo):
        r = self.raw_git(repo, "rev-parse", "--git-common-dir")
        g = r.out.strip()
        if not os.path.isabs(g):
            g = os.path.join(repo, g)
        return os.path.join(g, "ai")

    # ------------------------------------------------------------------ snapshots
    def snapshot(self, tag):
        self.__dict__.setdefault("_snap_clock", {})[tag] = self.now_ms
        dst = self.root + ".snap." + tag
        if os.path.exists(dst):
            shutil.rmtree(dst)
        subprocess.check_call(["cp", "-a", self.root, dst])
        return dst

    def restore(self, tag, keep=True):
        self.now_ms = self.__dict__.get("_snap_clock", {}).get(tag, self.now_ms)
        self.hang = False
        src = self.root + ".snap." + tag
        shutil.rmtree(self.root, ignore_errors=True)
        if keep:
            subprocess.check_call(["cp", "-a", src, self.root])
        else:
            os.rename(src, self.root)

    def drop_snapshot(self, tag):
        shutil.rmtree(self.root + ".snap." + tag, ignore_errors=True)

    def destroy(self):
        shutil.rmtree(self.root, ignore_errors=True)
