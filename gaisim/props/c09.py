"""C09 — AI blame is git blame plus the notes, in every output format."""
import json
import re

from .c02 import C02
from .. import hist, noteparse
from ..engine import in_progress
from ..ledger import split_lines
from ..oracle import Notes, git_blame_porcelain, overlay, file_at
from ..world import AGENT_NAME

TEXT_LINE = re.compile(r"^\^?([0-9a-f]{7,40})\s+(?:\S+\s+)?\((.*?)\s+(\d{4}-\d{2}-\d{2})\s+[\d:]+\s+[+-]\d{4}\s+(\d+)\)")


def option_sets(rng, n_lines, shas):
    opts = [[]]
    if n_lines >= 2:
        a = rng.randint(1, n_lines)
        b = rng.randint(a, n_lines)
        opts.append(["-L", "%d,%d" % (a, b)])
        if b + 1 <= n_lines:
            c = rng.randint(b + 1, n_lines)
            opts.append(["-L", "%d,%d" % (a, b), "-L", "%d,%d" % (c, n_lines)])
    opts += [["-M"], ["-C"], ["--root"], ["--first-parent"], ["-C", "-C", "-C"], ["-C", "-C"], ["-M", "-C"], ["-C", "-C", "-C"]]
    if shas:
        opts.append(["--ignore-rev", rng.choice(shas)])
    return opts


def selected_lines(opt, n_lines):
    """which final lines the -L options select (None = all)"""
    if "-L" not in opt:
        return None
    sel = set()
    for i, o in enumerate(opt):
        if o == "-L":
            spec = opt[i + 1]
            a, _, b = spec.partition(",")
            a = int(a)
            if b == "":
                e = n_lines
            elif b.startswith("+"):
                e = a + int(b[1:]) - 1
            else:
                e = int(b)
            sel.update(range(a, min(e, n_lines) + 1))
    return sel


def check_file(ex, repo, path, rng, notes, probe=True):
    w = ex.w
    content = w.read(repo, path)
    head_content = file_at(w, repo, "HEAD", path)
    if content is None or content != head_content or "\0" in content:
        return None
    lines = split_lines(content)
    if not lines:
        return None
    shas = [s for s in w.raw_git(repo, "rev-list", "-5", "HEAD", "--", path).out.split() if s]
    arg = path if not path.startswith("-") else "./" + path
    opts = option_sets(rng, len(lines), shas)
    rng.shuffle(opts)
    for opt in opts[:4]:
        git_opt = list(opt)
        ov = overlay(w, repo, None, path, notes, extra=git_opt)
        if ov is None:
            continue
        sel = selected_lines(opt, len(lines))
        want = {n: h for n, h in ov.items() if sel is None or n in sel}
        bj, r = w.blame_json(repo, arg, extra=opt)
        if bj is None:
            return {"monitor": "blame.cross", "class": "gitai_blame_failed",
                    "detail": {"path": path, "opts": opt, "code": r.code, "err": r.err[-300:]}}
        got = bj[0]
        if want:
            ex.probe("ai_lines_observed")
        ex.probe("blame.opt." + (opt[0] if opt else "none"))
        if got != want:
            diff = sorted(set(got.items()) ^ set(want.items()))[:6]
            return {"monitor": "blame.cross", "class": "json_differs_from_git_blame_plus_notes",
                    "detail": {"path": path, "opts": opt, "diff": diff}}
        # human-readable output agrees with JSON line by line (AI vs human)
        rt = w.gitai(repo, "blame", *opt, arg)
        if rt.code != 0:
            return {"monitor": "blame.cross", "class": "gitai_blame_failed",
                    "detail": {"path": path, "opts": opt, "code": rt.code, "err": rt.err[-300:]}}
        text_ai = set()
        seen = set()
        for ln in rt.out.split("\n"):
            m = TEXT_LINE.match(ln)
            if m:
                n = int(m.group(4))
                seen.add(n)
                if m.group(2).strip() == AGENT_NAME:
                    text_ai.add(n)
        if seen and text_ai != set(got):
            return {"monitor": "blame.cross", "class": "text_and_json_disagree",
                    "detail": {"path": path, "opts": opt, "text_ai": sorted(text_ai)[:20], "json_ai": sorted(got)[:20]}}
        if sel is not None and seen and seen != sel:
            return {"monitor": "blame.cross", "class": "text_range_differs",
                    "detail": {"path": path, "opts": opt, "shown": sorted(seen)[:20], "selected": sorted(sel)[:20]}}
    # porcelain-style outputs name git's commit for every final line
    ref = git_blame_porcelain(w, repo, None, path)
    if ref:
        want_sha = {f: s for f, s, _o, _p, _t in ref}
        for fmt in ("--porcelain", "--line-porcelain", "--incremental"):
            r = w.gitai(repo, "blame", fmt, arg)
            if r.code != 0:
                return {"monitor": "blame.cross", "class": "gitai_blame_failed",
                        "detail": {"path": path, "opts": [fmt], "code": r.code, "err": r.err[-300:]}}
            got_sha = {}
            for ln in r.out.split("\n"):
                parts = ln.split(" ")
                if len(parts) >= 3 and len(parts[0]) in (40, 64) and all(c in "0123456789abcdef" for c in parts[0]) \
                        and parts[1].isdigit() and parts[2].isdigit():
                    n = int(parts[3]) if len(parts) >= 4 and parts[3].isdigit() else 1
                    for k in range(n):
                        got_sha[int(parts[2]) + k] = parts[0]
            ex.probe("blame.fmt." + fmt)
            if got_sha != want_sha:
                diff = sorted(set(got_sha.items()) ^ set(want_sha.items()))[:6]
                return {"monitor": "blame.cross", "class": "porcelain_commit_differs",
                        "detail": {"path": path, "format": fmt, "diff": diff}}
    return None


def fam_renames(g):
    rng = g.rng
    yield from g.some_edits(n_ai=(1, 3), n_human=(0, 1))
    yield from g.commit_all()
    files = g.w.tracked_files(g.repo)
    big = [f for f in files if len(split_lines(g.w.read(g.repo, f) or "")) >= 4]
    if big and rng.random() < 0.3:
        # what rename DETECTION pairs up: a file is deleted and, in the same commit, an agent writes a new file
        # that keeps most of its lines and adds some (git-ai must treat the new file as new whatever diff.renames says)
        f = rng.choice(big)
        old_lines = split_lines(g.w.read(g.repo, f))
        from .. import gen
        new_lines = list(old_lines)
        for _ in range(rng.randint(1, 3)):
            new_lines.insert(rng.randint(0, len(new_lines)), gen.new_line(rng, g.ex))
        newname = "rw%d_%s" % (g.msg_n, f.replace("/", "_"))
        g.ex.probe("rename.rewrite_as_new_file")
        yield g.git("rm", "-q", f)
        yield {"op": "edit", "who": g.pick_session(), "files": {newname: gen.join_lines(new_lines)}, "dt": g.dt(),
               "dt2": 20, "desc": {"kind": "rewrite_as_new_file", "pos": "any", "who": "ai"}}
        yield g.git("add", "-A")
        yield g.git("commit", "-q", "-m", g.msg(), check=True)
        return
    if files:
        f = rng.choice(files)
        # (git mv does not create directories: move within the tree that exists)
        new = ("src/" if rng.random() < 0.5 and g.w.read(g.repo, "src/keep.txt") is not None else "") + \
            "r%d_" % g.msg_n + f.replace("/", "_")
        g.ex.probe("rename")
        yield g.git("mv", f, new)
        if rng.random() < 0.4:
            yield g.edit(g.pick_session() if rng.random() < 0.5 else "human", path=new)
            yield g.git("add", "-A")
        yield g.git("commit", "-q", "-m", g.msg(), check=True)
        if rng.random() < 0.5:
            yield from g.some_edits(n_ai=(1, 2), n_human=(0, 1), path=new)
            yield from g.commit_all()


def fam_copies(g):
    """one commit writes AI lines into two files; a person later copies (or moves) a block from one file
    into the other: with -C / -C -C -C git blame follows those lines back to the first commit under the
    path they had THERE"""
    rng = g.rng
    files = g.worktree_files()
    while len(files) < 2:
        yield g.ai_edit(new_file=True)
        files = g.worktree_files()
    fa, fb = rng.sample(files, 2)
    for f in (fa, fb):
        yield g.ai_edit(path=f, kinds=["insert", "append"], max_block=6)
    yield from g.commit_all()
    if rng.random() < 0.5:
        yield from g.some_edits(n_ai=(0, 1), n_human=(1, 1))
        yield from g.commit_all()
    la = split_lines(g.w.read(g.repo, fa) or "")
    lb = split_lines(g.w.read(g.repo, fb) or "")
    if len(la) >= 3:
        k = rng.randint(3, min(8, len(la)))
        at = rng.randint(0, len(la) - k)
        block = la[at:at + k]
        pos = rng.randint(0, len(lb))
        newb = lb[:pos] + block + lb[pos:]
        files_new = {fb: "\n".join(newb) + "\n"}
        how = rng.choice(["copy", "copy", "move"])
        if how == "move":
            files_new[fa] = "\n".join(la[:at] + la[at + k:]) + ("\n" if len(la) > k else "")
        g.ex.probe("copies." + how)
        yield {"op": "edit", "who": "human", "files": files_new, "dt": g.dt(), "pre_ckpt": True,
               "desc": {"kind": "copy_block", "pos": "any", "who": "human", "moved": block}}
        yield from g.commit_all()
    if rng.random() < 0.4:
        yield from g.some_edits(n_ai=(1, 1), n_human=(0, 1), path=fb)
        yield from g.commit_all()


hist.FAMILIES.setdefault("renames", fam_renames)
hist.FAMILIES.setdefault("copies", fam_copies)


class C09(C02):
    id = "C09"
    families = ["copies", "copies", "commits", "commits", "renames", "renames", "rebase", "cherry_pick", "merge", "squash_merge", "amend",
                "partial", "reset_recommit"]
    quick_runs, thorough_runs = 300, 5000
    quick_budget_s, thorough_budget_s = 170, 1800
    rule = ("one run (12% in a SHA-256 repository) = one history family (plain commits by several sessions, renames with and "
            "without edits, blocks copied / moved between two files written by one commit, rebase, "
            "cherry-pick, merge, squash merge, amend, partial commits, reset+recommit); at every commit and at the end, for "
            "every clean tracked text file and four drawn option sets out of {none, -L a,b, -L a,+n, two -L ranges, -L a,, "
            "-M, -C, -C -C, -C -C -C, -M -C, --root, --first-parent, --ignore-rev <sha>}: git-ai blame --json == (git blame --line-porcelain with "
            "the same options) overlaid with the raw notes through the independent parser (original line, original "
            "path); default text output agrees with JSON line by line and respects -L; --porcelain / --line-porcelain / "
            "--incremental name git's commit for every final line. distinct = digest of family x ops; non-trivial = AI "
            "line observed")
    assumptions = ["only options that git-ai blame's parser accepts are drawn (-w, a positional revision and '--' are "
                   "rejected by it)", "the original-line column of porcelain outputs is not compared", "-L forms other than 'a,b' (a,+n / a, / regex) are not drawn: git-ai blame's parser rejects or mis-reads them with an error, it does not answer wrongly",
                   "empty files are skipped (git-ai blame refuses a 0-line file; no line to compare)"]
    expected_probes = ["ai_lines_observed", "rename", "blame.opt.-L", "blame.opt.-M", "blame.opt.--ignore-rev",
                       "blame.fmt.--porcelain", "blame.fmt.--incremental", "multi_session"]

    def draw_hazards(self, rng, tier):
        return {"names": True} if rng.random() < 0.3 else {}

    def header(self, rng, tier, index):
        h = super().header(rng, tier, index)
        if rng.random() < 0.12:
            # a repository that uses SHA-256 object names (64 hex digits in every blame / notes output)
            h["world"]["object_format"] = "sha256"
        return h

    def before_op(self, ex, i, op, cfg):
        pass

    def monitor(self, ex, i, op, res, cfg):
        if op["op"] != "git" or not (op.get("check") or op.get("rewrite")) or res.get("code") != 0:
            return None
        repo = ex.repo(op)
        if in_progress(ex.w, repo):
            return None
        if len(ex.sessions) > 1:
            ex.probe("multi_session")
        import random
        rng = random.Random(ex.w.now_ms * 31 + i)
        notes = Notes(ex.w, repo)
        files = ex.w.tracked_files(repo)
        rng.shuffle(files)
        for f in files[:3]:
            v = check_file(ex, repo, f, rng, notes)
            if v:
                return v
        return None

    def final(self, ex, cfg):
        return None


PROP = C09()
