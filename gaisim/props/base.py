"""Common scaffolding of a property check: online generation, replay, monitors."""
import hashlib
import json

from ..engine import Exec


class Stop(Exception):
    pass


class Prop:
    id = "C00"
    level = "exploration"
    rule = ""
    assumptions = []
    expected_probes = []
    quick_runs, thorough_runs = 100, 1000
    quick_budget_s, thorough_budget_s = 150, 1200

    def runs(self, tier):
        return self.quick_runs if tier == "quick" else self.thorough_runs

    def budget_s(self, tier):
        return self.quick_budget_s if tier == "quick" else self.thorough_budget_s

    # ---- to be provided by the property -------------------------------------------------
    def header(self, rng, tier, index):
        """-> trace header {"world":..,"init":..,"sessions":..,"cfg":..} (no ops yet)"""
        raise NotImplementedError

    def next_op(self, rng, ex, i, cfg):
        """-> next concrete op or None when the history ends (online generation)"""
        raise NotImplementedError

    def ops(self, rng, ex, cfg):
        """generator of concrete ops (online: may inspect ex between yields)"""
        i = 0
        while True:
            op = self.next_op(rng, ex, i, cfg)
            if op is None:
                return
            yield op
            i += 1

    def monitor(self, ex, i, op, res, cfg):
        """-> violation dict or None"""
        return None

    def final(self, ex, cfg):
        return None

    def before_op(self, ex, i, op, cfg):
        pass

    def trace_valid(self, trace):
        return True

    def simplifications(self, trace):
        return []

    def nontrivial(self, ex, cfg):
        return bool(ex.probes.get("ai_lines_observed"))

    def abstract(self, ex, trace):
        shape = [(o["op"], o.get("who", "") != "human" if o["op"] == "edit" else " ".join(o.get("argv", [])[:2]),
                  (o.get("desc") or {}).get("kind"), (o.get("desc") or {}).get("pos"))
                 for o in trace["ops"]]
        return hashlib.sha256(json.dumps([shape, sorted(trace.get("world", {}).items(), key=str)],
                                         sort_keys=True, default=str).encode()).hexdigest()[:16]

    def sample(self, trace):
        out = []
        for o in trace["ops"]:
            if o["op"] == "edit":
                out.append("edit[%s] %s %s" % (o["who"], ",".join(sorted(o["files"])),
                                               json.dumps(o.get("desc", {}), sort_keys=True)))
            elif o["op"] in ("git", "raw", "gitai"):
                out.append("%s %s" % (o["op"], " ".join(o["argv"])))
            else:
                out.append(o["op"])
        return {"world": trace.get("world"), "ops": out}

    # ---- drivers ---------------------------------------------------------------------------
    def _drive(self, ex, trace, op_source):
        cfg = trace.get("cfg", {})
        ex.init()
        self.after_init(ex, cfg)
        viol = None
        i = 0
        for op in op_source:
            self.before_op(ex, i, op, cfg)
            res = ex.apply(op)
            viol = self.monitor(ex, i, op, res, cfg)
            if ex.w.hang and not viol:
                viol = {"monitor": "watchdog", "class": "hang", "detail": {"op": op.get("argv") or op["op"]}}
            if viol:
                viol["step"] = i
                break
            i += 1
        if not viol:
            viol = self.final(ex, cfg)
            if viol:
                viol.setdefault("step", len(trace["ops"]) - 1)
        return viol

    def after_init(self, ex, cfg):
        pass

    def make_exec(self, root, trace):
        return Exec(root, trace)

    def _result(self, ex, trace, viol):
        return {"violation": viol, "trace": trace, "ops": ex.op_counts, "probes": ex.probes,
                "faults": ex.faults, "abstract": self.abstract(ex, trace),
                "nontrivial": self.nontrivial(ex, trace.get("cfg", {})),
                "sim_ms": ex.w.now_ms - 1767225600000, "sample": self.sample(trace),
                "events": hashlib.sha256(json.dumps(ex.events, sort_keys=True, default=str).encode()).hexdigest()[:16],
                "event_log": ex.events if ex.full_digests else None}

    def run_generated(self, rng, root, tier, index, full_digests=False):
        trace = self.header(rng, tier, index)
        trace["ops"] = []
        ex = self.make_exec(root, trace)
        ex.full_digests = full_digests
        cfg = trace.get("cfg", {})

        def source():
            for op in self.ops(rng, ex, cfg):
                trace["ops"].append(op)
                yield op
        viol = self._drive(ex, trace, source())
        return self._result(ex, trace, viol)

    def run_trace(self, trace, root, full_digests=False):
        trace = {k: v for k, v in trace.items() if k not in ("violation",)}
        ex = self.make_exec(root, trace)
        ex.full_digests = full_digests
        viol = self._drive(ex, trace, iter(list(trace["ops"])))
        return self._result(ex, trace, viol)
