"""C07 — a failure inside git-ai never damages or silently alters a git operation.

Fault enumeration: for a sampled scenario, EVERY internal git call of the wrapped target command
is failed / truncated / used as a kill point, every journal point is crashed / torn / failed, and
every file under .git/ai is corrupted, one fault per branch run from a snapshot.  Reference: plain
git executed from the same snapshot in the twin world.
"""
import json
import os
import shutil

from .base import Prop
from .c01 import check_blame, check_commit_note
from .c06 import compare as twin_compare
from .. import gen, hist, noteparse
from ..ledger import HUMAN
from ..oracle import Notes
from ..twin import TwinExec, diff_states, observable_state

TARGETS = ["commit", "amend", "rebase", "rebase_continue", "cherry_pick", "reset_soft", "reset_hard",
           "stash_push", "stash_pop", "squash", "checkout_b", "switch", "commit_partial",
           "push", "fetch", "pull_ff", "pull_rebase", "stash_pop_two", "cherry_pick_after_abort", "commit_hunks"]
GIT_KINDS = ["fail:128", "fail:1", "short:0", "short:half", "kill"]
JOURNAL_KINDS = ["crash", "torn:half", "eio", "enospc"]
CORRUPT_KINDS = ["truncate_half", "truncate_tail", "truncate_0", "flip_byte", "delete", "garbage", "dup_last_line", "dir",
                 "bad_utf8_line"]


def prefix_ops(g, target):
    """yield the ops that set the stage, the last one flagged target=True"""
    rng = g.rng
    files = g.worktree_files()
    path = rng.choice(files) if files else None
    if target == "commit" and g.cfg.get("fault_family") == "corrupt":
        # AI edit; a person edits and their tool checkpoints afterwards; (damage happens here);
        # an agent without a pre-edit hook reports its next edit; commit
        yield g.ai_edit(path=path, kinds=["insert", "append"])
        op = g.human_edit(path=path, kinds=["insert", "append"], pre_ckpt=True)
        op["post_ckpt"] = True
        yield op
        op = g.ai_edit(path=path, kinds=["insert", "append", "replace"])
        op["skip_pre_ckpt"] = True
        yield op
        yield g.git("add", "-A")
        yield g.git("commit", "-q", "-m", g.msg(), target=True)
    elif target in ("commit", "commit_partial"):
        yield from g.some_edits(n_ai=(1, 3), n_human=(0, 1))
        if rng.random() < 0.7:
            # a person edits inside the AI region and commits straight away (no checkpoint of their own:
            # only the wrapper's pre-commit checkpoint will see this edit)
            yield g.edit(HUMAN, kinds=["insert", "modify", "replace"], pos="inside_ai", pre_ckpt=False)
        if target == "commit":
            yield g.git("add", "-A")
            yield g.git("commit", "-q", "-m", g.msg(), target=True)
        else:
            yield g.ai_edit(new_file=True)
            f = rng.choice(g.worktree_files())
            yield g.git("add", "--", f)
            yield g.git("commit", "-q", "-m", g.msg(), target=True)
    elif target == "commit_hunks" and g.cfg.get("fault_family") == "git":
        # "git add, keep typing, git commit": an agent appends a block, a person appends lines right below it, everything
        # is staged; then the person types a few more lines further up and commits without staging them
        f = path or rng.choice(g.worktree_files())
        yield g.ai_edit(path=f, kinds=["append"], max_block=4)
        yield g.human_edit(path=f, kinds=["append"], pre_ckpt=True, max_block=6)
        yield g.git("add", "--", f)
        yield g.human_edit(path=f, kinds=["insert"], pos="top", pre_ckpt=rng.random() < 0.5, max_block=3)
        yield g.git("commit", "-q", "-m", g.msg(), target=True)
    elif target == "commit_hunks":
        # several AI / human insertion blocks in one file, some of them staged by hunk (git add -p): the commit that
        # leaves unstaged insertions above committed AI lines is the target
        for op in hist.fam_partial_blocks(g):
            if op["op"] == "git" and op["argv"][0] == "commit":
                op = dict(op, target=True)
                op.pop("check", None)
                yield op
                return
            yield op
    elif target == "amend":
        yield from g.some_edits(n_ai=(1, 2), n_human=(0, 1))
        yield from g.commit_all()
        yield g.ai_edit(kinds=["insert", "append", "replace", "modify"])   # (amend after a deletion: finding amend_shift)
        yield g.git("add", "-A")
        yield g.git("commit", "-q", "--amend", "--no-edit", target=True)
    elif target == "rebase" and g.cfg.get("fault_family") == "git":
        # one commit that adds an agent block and hand-written lines right next to it (both orders); upstream inserts or
        # deletes lines above: any note that reaches the rewritten commit with the OLD line numbers covers the person's lines
        base = g.branch()
        yield g.git("checkout", "-q", "-b", "feat")
        first_ai = rng.random() < 0.5
        for k in range(rng.choice([2, 3])):
            if (k % 2 == 0) == first_ai:
                yield g.ai_edit(path=path, kinds=["append"], max_block=3)
            else:
                yield g.human_edit(path=path, kinds=["append"], pre_ckpt=True, max_block=3)
        yield from g.commit_all()
        yield g.git("checkout", "-q", base)
        yield g.human_edit(path=path, kinds=["insert", "delete"], pos="top", pre_ckpt=True, max_block=2)
        yield from g.commit_all()
        yield g.git("checkout", "-q", "feat")
        yield g.git("rebase", base, target=True)
    elif target in ("rebase", "rebase_continue"):
        base = g.branch()
        yield from hist.fam_feature_branch(g, rng.randint(1, 2), path, rewritten=True)
        yield g.git("checkout", "-q", base)
        yield hist.upstream_change(g, "conflict" if target == "rebase_continue" else rng.choice(["other_file", "above", "below"]), path)
        yield from g.commit_all()
        yield g.git("checkout", "-q", "feat")
        if target == "rebase":
            yield g.git("rebase", base, target=True)
        else:
            yield g.git("rebase", base)
            if g.in_progress() == "rebase" and g.has_conflicts():
                yield {"op": "resolve", "strategy": rng.choice(["ours", "theirs"]), "dt": g.dt()}
                yield g.git("rebase", "--continue", env={"GIT_EDITOR": "true"}, target=True)
            else:
                yield g.ai_edit()
                yield g.git("add", "-A")
                yield g.git("commit", "-q", "-m", g.msg(), target=True)
    elif target == "cherry_pick":
        base = g.branch()
        yield from hist.fam_feature_branch(g, rng.randint(1, 2), path, name="src")
        yield g.git("checkout", "-q", base)
        yield hist.upstream_change(g, rng.choice(["other_file", "above"]), path)
        yield from g.commit_all()
        yield g.git("cherry-pick", "src", target=True)
    elif target in ("reset_soft", "reset_hard"):
        for _ in range(2):
            yield from g.some_edits(n_ai=(1, 2), n_human=(0, 1))
            yield from g.commit_all()
        if target == "reset_hard":
            yield g.ai_edit()
            yield g.git("reset", "-q", "--hard", "HEAD~1", target=True)
        else:
            yield g.git("reset", "-q", rng.choice(["--soft", "--mixed"]), "HEAD~1", target=True)
    elif target in ("stash_push", "stash_pop"):
        yield from g.some_edits(n_ai=(1, 2), n_human=(0, 1))
        if target == "stash_push":
            yield g.git("stash", "push", "-q", target=True)
        else:
            yield g.git("stash", "push", "-q")
            yield g.git("stash", "pop", "-q", target=True)
    elif target == "stash_pop_two":
        # two stash entries: an older one with AI work, a newer one with a person's work; the newer one is popped
        # (both edits at the top of the same file, so that the line numbers of the two stash entries overlap)
        yield g.ai_edit(path=path, kinds=["insert"], pos="top")
        yield g.git("stash", "push", "-q")
        yield g.human_edit(path=path, kinds=["insert"], pos="top", pre_ckpt=True, max_block=4)
        yield g.git("stash", "push", "-q")
        yield g.human_edit(new_file=True)
        yield from g.commit_all()
        yield g.git("stash", "pop", "-q", target=True)
    elif target == "cherry_pick_after_abort":
        # a cherry-pick of an AI commit stops on a conflict and is given up; then a purely human commit is picked
        base = g.branch()
        yield g.git("checkout", "-q", "-b", "src")
        yield g.ai_edit(path=path, kinds=["insert", "append", "replace"])
        yield from g.commit_all()
        yield g.human_edit(new_file=True)
        yield from g.commit_all()
        yield g.git("checkout", "-q", base)
        yield hist.upstream_change(g, "conflict", path, who=HUMAN)
        yield from g.commit_all()
        yield g.git("cherry-pick", "src~1")
        if g.in_progress():
            yield g.git("cherry-pick", "--abort")
        yield g.git("cherry-pick", "src", target=True)
    elif target == "squash" and g.cfg.get("fault_family") == "git" and rng.random() < 0.5 and \
            not g.gated("initial_outlives_discard"):
        # (only outside the listed class initial_outlives_discard: on the pinned tree `git restore` leaves the INITIAL of
        # the discarded squash behind, and any fault that keeps the hooks of the second squash from running lets it
        # leak - the listed defect, not a new one)
        # an earlier squash of an AI-written branch was looked at and thrown away (git restore --staged --worktree .);
        # now a hand-written branch is squashed: whatever the first attempt left behind must not leak into it
        base = g.branch()
        yield from hist.fam_feature_branch(g, 1, path)
        yield g.git("checkout", "-q", base)
        yield g.git("checkout", "-q", "-b", "hand")
        yield g.human_edit(path=path, kinds=["insert"], pos="top", pre_ckpt=True, max_block=4)
        yield from g.commit_all()
        yield g.git("checkout", "-q", base)
        yield g.git("merge", "--squash", "feat")
        yield g.git("restore", "--staged", "--worktree", ".")
        yield g.git("merge", "--squash", "hand", target=True)
    elif target == "squash":
        base = g.branch()
        yield from hist.fam_feature_branch(g, rng.randint(1, 2), path)
        yield g.git("checkout", "-q", base)
        yield g.git("merge", "--squash", "feat", target=True)
    elif target in ("push", "fetch", "pull_ff", "pull_rebase"):
        yield {"op": "setup_remote", "dt": 1000}
        if target == "push":
            yield from g.some_edits(n_ai=(1, 2), n_human=(0, 1))
            yield from g.commit_all()
            yield g.git("push", "-q", "origin", "main", target=True)
        else:
            yield {"op": "remote_commit", "path": "upstream%d.txt" % g.ex.fresh_id(),
                   "content": "L%d upstream line\n" % g.ex.fresh_id(), "dt": 2000}
            if target == "pull_rebase":
                yield from g.some_edits(n_ai=(1, 2), n_human=(0, 1))
                yield from g.commit_all()
                yield g.git("pull", "-q", "--rebase", "origin", "main", target=True)
            elif target == "pull_ff":
                yield g.ai_edit()          # uncommitted AI work rides along a fast-forward
                yield g.git("pull", "-q", "--ff-only", "origin", "main", target=True)
            else:
                yield g.git("fetch", "-q", "origin", target=True)
    elif target in ("checkout_b", "switch"):
        yield from g.some_edits(n_ai=(1, 2), n_human=(0, 1))
        yield from g.commit_all()
        yield g.git("branch", "other")
        yield g.git("commit", "-q", "--allow-empty", "-m", g.msg())
        yield g.ai_edit()
        if target == "checkout_b":
            yield g.git("checkout", "-q", "-b", "newb", target=True)
        else:
            yield g.git("switch", "-q", "other", target=True)


def ai_files(w, repo):
    out = []
    base = w.ai_dir(repo)
    for d, dirs, files in os.walk(base):
        dirs.sort()
        for f in sorted(files):
            out.append(os.path.relpath(os.path.join(d, f), base))
    return out


def corrupt(path, kind):
    try:
        with open(path, "rb") as f:
            data = f.read()
    except OSError:
        data = b""
    if kind == "truncate_half":
        new = data[:len(data) // 2]
    elif kind == "truncate_tail":
        new = data[:max(0, len(data) - 60)]
    elif kind == "truncate_0":
        new = b""
    elif kind == "flip_byte":
        new = bytearray(data)
        if new:
            new[len(new) // 3] ^= 0x5A
        new = bytes(new)
    elif kind == "garbage":
        new = b"\x00\xff{not json" + data[:7]
    elif kind == "dup_last_line":
        lines = data.split(b"\n")
        new = data + (lines[-2] if len(lines) > 1 else data)[: 50]
    elif kind == "bad_utf8_line":
        # one more line that is not valid UTF-8 (a torn multi-byte character, a stray binary write); the rest stays
        new = data + (b"" if data.endswith(b"\n") or not data else b"\n") + b"\xff\xfe\xc3 broken\n"
    elif kind == "delete":
        os.remove(path)
        return
    elif kind == "dir":
        os.remove(path)
        os.makedirs(path)
        return
    else:
        raise ValueError(kind)
    with open(path, "wb") as f:
        f.write(new)


class C07(Prop):
    id = "C07"
    level = "fault_enumeration"
    quick_runs, thorough_runs = 60, 2000
    quick_budget_s, thorough_budget_s = 170, 1800
    rule = ("one task = one sampled scenario (prefix of edits/checkpoints/commits + one wrapped target command of a "
            "hooked kind: commit, partial commit, amend, rebase, rebase --continue after a conflict, cherry-pick, reset "
            "soft/mixed/hard, stash push/pop (also with two stash entries), merge --squash, checkout -b, switch, push / fetch / "
            "pull --ff-only / pull --rebase against a bare remote, a cherry-pick after an aborted one) x one fault family. Within the task "
            "EVERY internal git call index of the target command is enumerated for each of fail(128), fail(1), empty "
            "stdout, half stdout, kill-the-wrapper; EVERY journal point reached for crash / torn write / EIO / ENOSPC; "
            "EVERY file under .git/ai for truncate-half / truncate-0 / byte flip / delete / garbage / duplicate tail / "
            "replaced-by-directory / an appended line that is not UTF-8. One fault per branch run, each from a snapshot, with plain git run from the same "
            "snapshot as reference; blame one-sided, and the note of the commit the target produced may only list lines it "
            "added (whenever the fault-free run's note does); then fault-free follow-up ops (human edit, add, commit) in "
            "both worlds. evaluations = "
            "branch runs; distinct = (target kind, fault kind, normalised failing call / point / file, outcome class); "
            "non-trivial = the fault actually fired inside the target command")
    assumptions = ["scenarios are sampled, faults within a scenario are enumerated exhaustively (single faults; the thorough tier adds 40 sampled PAIRS of git-call faults per task)",
                   "a real git subprocess is atomic for the fault injector",
                   "the user's own git command is never a fault target", "stderr is not compared",
                   "a call that exits 0 with a truncated answer (short:*) is held to every clause except 'no attribution is "
                   "invented': a success that lies is outside the property's quantifier (failing call / killed wrapper)"]
    expected_probes = ["outcome.as_git", "outcome.refused_before_git", "fault.kill.fired", "fault.journal.fired",
                       "fault.corrupt.applied"]

    def make_exec(self, root, trace):
        return TwinExec(root, trace)

    def gates(self):
        if os.environ.get("GAISIM_GATES") is not None:
            return [x for x in os.environ["GAISIM_GATES"].split(",") if x]
        from ..runner import load_known
        return sorted({kf["generator_gate"] for kf in load_known().get("findings", []) if kf.get("generator_gate")})

    def header(self, rng, tier, index):
        target = TARGETS[index % len(TARGETS)]
        family = ["git", "journal", "corrupt"][(index // len(TARGETS)) % 3]
        n_sessions = rng.choice([1, 2])
        cfg = {"target": target, "fault_family": family, "hazards": {}, "human_pre_ckpt": True, "max_lines": 40,
               "gates": self.gates(), "user_hooks": True}
        idg = gen.IdGen()
        files = gen.initial_files(rng, idg, rng.randint(1, 3), 8, {})
        if not any(files.values()):
            files[sorted(files)[0]] = gen.join_lines([gen.new_line(rng, idg) for _ in range(4)])
        return {"world": {"mode": "wrapper", "use_simgit": True}, "sessions": ["s%d" % (k + 1) for k in range(n_sessions)],
                "cfg": cfg, "init": {"files": files}, "next_id": idg.next_id}

    # ------------------------------------------------------------------ one task
    def run_generated(self, rng, root, tier, index, full_digests=False):
        trace = self.header(rng, tier, index)
        trace["ops"] = []
        ex = self.make_exec(root, trace)
        cfg = trace["cfg"]
        ex.init()
        g = hist.G(rng, ex, cfg)
        target_op = None
        for op in prefix_ops(g, cfg["target"]):
            if op.get("target"):
                target_op = op
                break
            if op["op"] == "edit" and cfg["fault_family"] == "corrupt":
                ex.b.w.snapshot("mid")
                ex.gen_state["mid_index"] = len(trace["ops"])
            trace["ops"].append(op)
            res = ex.apply(op)
            v = twin_compare(ex, op, res, len(trace["ops"]) - 1)
            if v:
                v["step"] = len(trace["ops"]) - 1
                v["monitor"] = "prefix." + v["monitor"]
                return self._result(ex, trace, v, evals=1)
        if target_op is None:
            return self._result(ex, trace, None, evals=1)
        trace["target"] = target_op
        viol, evals = self.enumerate(ex, trace, target_op, cfg, rng, tier)
        return self._result(ex, trace, viol, evals=evals)

    def run_trace(self, trace, root, full_digests=False):
        trace = {k: v for k, v in trace.items() if k != "violation"}
        ex = self.make_exec(root, trace)
        ex.init()
        ex.gen_state["golden_note_ok"] = bool(trace.get("golden_note_ok"))
        fault = trace.get("fault") or {}
        for i, op in enumerate(trace["ops"]):
            if fault.get("before_op") == i:
                p = os.path.join(ex.b.w.ai_dir(ex.b.repos["r0"]), fault["file"])
                if os.path.isfile(p):
                    corrupt(p, fault["kind"])
                fault = dict(fault, applied=True)
            ex.apply(op)
        if trace.get("fault") and fault.get("applied"):
            trace = dict(trace, fault=dict(trace["fault"], already_applied=True))
        if not trace.get("target"):
            return self._result(ex, trace, None, evals=1)
        fault = trace.get("fault")
        if fault is None:
            return self._result(ex, trace, None, evals=1)
        viol = self.branch(ex, trace, trace["target"], fault, snapshot=False)
        return self._result(ex, trace, viol, evals=1)

    def _result(self, ex, trace, viol, evals=1):
        r = Prop._result(self, ex, trace, viol)
        r["evals"] = evals
        r["distinct_set"] = sorted(ex.gen_state.get("distinct", set()))
        r["known_ids"] = sorted(ex.gen_state.get("known_ids", set()))
        r["nontrivial"] = bool(ex.gen_state.get("fired"))
        if viol and "step" not in viol:
            viol["step"] = len(trace["ops"])
        return r

    def sample(self, trace):
        s = Prop.sample(self, trace)
        s["target"] = " ".join((trace.get("target") or {}).get("argv", []))
        s["fault_family"] = trace.get("cfg", {}).get("fault_family")
        s["fault"] = trace.get("fault")
        return s

    # ------------------------------------------------------------------ enumeration
    def golden(self, ex, target_op):
        """run the target once without faults in B to learn its internal calls and journal points"""
        b = ex.b
        root = b.w.root
        for f in ("simgit.trace", "simgit.state", "verif.trace"):
            try:
                os.remove(os.path.join(root, f))
            except OSError:
                pass
        op = dict(target_op)
        op["env"] = dict(op.get("env") or {}, SIMGIT_TRACE="{ROOT}/simgit.trace", SIMGIT_STATE="{ROOT}/simgit.state",
                         GIT_AI_VERIF_TRACE="{ROOT}/verif.trace")
        res = b.apply(op)
        calls, points = [], []
        try:
            with open(os.path.join(root, "simgit.trace")) as f:
                for ln in f:
                    parts = ln.rstrip("\n").split("\t")
                    if len(parts) >= 6:
                        try:
                            calls.append({"idx": int(parts[0]), "proxied": parts[4] == "1", "argv": json.loads(parts[5])})
                        except ValueError:
                            continue      # (a record torn by a killed writer)
        except OSError:
            pass
        try:
            with open(os.path.join(root, "verif.trace")) as f:
                for ln in f:
                    parts = ln.rstrip("\n").split("\t")
                    if len(parts) >= 5 and parts[2] == "point":
                        try:
                            points.append((parts[3], int(parts[4])))
                        except ValueError:
                            continue
        except OSError:
            pass
        return res, calls, points

    def enumerate(self, ex, trace, target_op, cfg, rng, tier):
        a, b = ex, ex.b
        a.w.snapshot("pre")
        b.w.snapshot("pre")
        pre_state_b = observable_state(b.w, b.repos["r0"])
        # reference
        ref = Exec_apply(a, target_op)
        ref_state = observable_state(a.w, a.repos["r0"])
        a.w.snapshot("post")
        gres, calls, points = self.golden(ex, target_op)
        ex.gen_state.setdefault("ref", {}).update(code=ref.get("code"), out=a.norm_out(ref.get("out", ""), "a"),
                                                  state=ref_state, pre_b=pre_state_b)
        # the golden run itself must refine plain git (C06)
        gstate = observable_state(b.w, b.repos["r0"])
        d = diff_states(ref_state, gstate)
        if d or gres.get("code") != ref.get("code"):
            return ({"monitor": "twin.golden", "class": "fault_free_run_differs",
                     "detail": {"argv": target_op["argv"], "diff": d, "codes": [ref.get("code"), gres.get("code")]}}, 1)
        # is the note of the commit the target produced sound in the fault-free run?  (then it has to stay sound -
        # or be missing - under every fault: a note that lists lines its commit did not add is invented attribution)
        from ..engine import in_progress as _inp0
        repo_b0 = b.repos["r0"]
        ex.gen_state["golden_note_ok"] = (not _inp0(b.w, repo_b0)) and gstate["HEAD"] != pre_state_b["HEAD"] and \
            check_commit_note(b, repo_b0, gstate["HEAD"], ex.sessions, two_sided=False) is None
        trace["golden_note_ok"] = ex.gen_state["golden_note_ok"]
        faults = []
        fam = cfg["fault_family"]
        internal = [c for c in calls if not c["proxied"]]
        if fam == "git":
            for c in internal:
                for kind in GIT_KINDS:
                    faults.append({"family": "git", "idx": c["idx"], "kind": kind,
                                   "argv": [x for x in c["argv"] if not x.startswith("/")][-4:]})
            if tier != "quick" and len(internal) >= 2:
                # pairs of faults: two internal calls of the same command go wrong (the second one may also be the kill)
                for _ in range(40):
                    c1, c2 = sorted(rng.sample(internal, 2), key=lambda c: c["idx"])
                    faults.append({"family": "git", "idx": c1["idx"], "kind": rng.choice(["fail:128", "fail:1"]),
                                   "idx2": c2["idx"], "kind2": rng.choice(["fail:128", "fail:1", "kill"]),
                                   "argv": [x for x in c1["argv"] if not x.startswith("/")][-4:],
                                   "argv2": [x for x in c2["argv"] if not x.startswith("/")][-4:]})
                ex.probe("enumerated.fault_pairs", 40)
        elif fam == "journal":
            for name, occ in points:
                for kind in JOURNAL_KINDS:
                    faults.append({"family": "journal", "point": name, "occ": occ, "kind": kind})
            # a few kill points too so the family is never empty
            for c in internal[::7]:
                faults.append({"family": "git", "idx": c["idx"], "kind": "kill", "argv": c["argv"][-3:]})
        else:
            b.w.restore("pre")
            for f in ai_files(b.w, b.repos["r0"]):
                if "/old-" in "/" + f or f.startswith("working_logs/old-"):
                    continue
                for kind in CORRUPT_KINDS:
                    faults.append({"family": "corrupt", "file": f, "kind": kind})
            mid = ex.gen_state.get("mid_index")
            if mid is not None:
                # the same damage, but suffered before the last edit (+ its checkpoints) of the prefix
                b.w.restore("mid")
                for f in ai_files(b.w, b.repos["r0"]):
                    if f.startswith("working_logs/old-") or not f.endswith(("checkpoints.jsonl", "INITIAL")):
                        continue
                    # only damage that leaves the journal malformed: a journal that is cleanly lost
                    # (deleted, emptied, cut at a record boundary) legitimately makes the next
                    # hook-less AI checkpoint claim every uncommitted change
                    for kind in ("truncate_tail", "garbage", "dir"):
                        faults.append({"family": "corrupt", "file": f, "kind": kind, "before_op": mid})
        cap = int(os.environ.get("GAISIM_C07_CAP", "60"))
        ex.probe("enumerated.faults", len(faults))
        ex.probe("enumerated.internal_calls", len(internal))
        if tier == "quick" and len(faults) > cap:
            # quick tier: every internal call (journal point, file) fails at least once - the plain failure of EVERY
            # call is kept, however long the command is - and at least 20 more are sampled from the other kinds
            first = {}
            for f in faults:
                key = (f["family"], f.get("idx"), f.get("point"), f.get("occ"), f.get("file"), f.get("before_op"))
                if key not in first and f["kind"] in ("fail:128", "crash", "truncate_half", "truncate_tail"):
                    first[key] = f
            keep = list(first.values())
            rest = [f for f in faults if f not in keep]
            faults = keep + rng.sample(rest, max(0, min(len(rest), max(cap - len(keep), 20))))
        evals = 1
        viol = None
        from .. import known as known_mod
        from ..runner import load_known
        known_db = load_known()
        for k, fault in enumerate(faults):
            evals += 1
            viol = self.branch(ex, trace, target_op, fault, snapshot=True,
                               follow_up=(k % 3 == 0 or cfg["target"] in ("stash_pop", "stash_pop_two", "stash_push")))
            if viol:
                # a listed finding must not end the enumeration of the other faults of this scenario
                kf = known_mod.classify(known_db, self.id, dict(trace, fault=fault), viol)
                if kf is not None:
                    ex.gen_state.setdefault("known_ids", set()).add(kf["id"])
                    ex.probe("known_finding_branch")
                    viol = None
                    continue
                trace["fault"] = fault
                break
        for tag in ("pre", "post"):
            a.w.drop_snapshot(tag)
        b.w.drop_snapshot("pre")
        return viol, evals

    def branch(self, ex, trace, target_op, fault, snapshot=True, follow_up=True):
        """one fault: restore B, inject, run, judge; then follow-ups in both worlds"""
        a, b = ex, ex.b
        ref = ex.gen_state.get("ref")
        if snapshot and fault.get("before_op") is not None:
            b.w.restore("mid")
        elif snapshot:
            b.w.restore("pre")
        else:
            # replay mode: compute the reference now
            a.w.snapshot("pre")
            pre_b = observable_state(b.w, b.repos["r0"])
            r = Exec_apply(a, target_op)
            ref = {"code": r.get("code"), "out": a.norm_out(r.get("out", ""), "a"),
                   "state": observable_state(a.w, a.repos["r0"]), "pre_b": pre_b}
            a.w.snapshot("post")
            ex.gen_state["ref"] = ref
        broot = b.w.root
        for f in ("simgit.trace", "simgit.state", "verif.trace"):
            try:
                os.remove(os.path.join(broot, f))
            except OSError:
                pass
        env = dict(target_op.get("env") or {}, SIMGIT_TRACE="{ROOT}/simgit.trace", SIMGIT_STATE="{ROOT}/simgit.state",
                   GIT_AI_VERIF_TRACE="{ROOT}/verif.trace")
        repo_b = b.repos["r0"]
        if fault["family"] == "git":
            kind = fault["kind"]
            if kind == "short:half":
                kind = "short:20"
            env["SIMGIT_PLAN"] = "%d=%s" % (fault["idx"], kind)
            if fault.get("idx2"):
                # a pair of faults in one command (thorough tier): a second internal call fails or kills as well
                env["SIMGIT_PLAN"] += ";%d=%s" % (fault["idx2"], fault["kind2"])
        elif fault["family"] == "journal":
            kind = fault["kind"]
            if kind == "torn:half":
                kind = "torn:37"
            env["GIT_AI_VERIF_PLAN"] = "%s#%d=%s" % (fault["point"], fault["occ"], kind)
        else:
            p = os.path.join(b.w.ai_dir(repo_b), fault["file"])
            if os.path.isfile(p) and not fault.get("already_applied"):
                corrupt(p, fault["kind"])
                ex.probe("fault.corrupt.applied")
                ex.gen_state["fired"] = True
            if snapshot and fault.get("before_op") is not None:
                for pop in trace["ops"][fault["before_op"]:]:
                    b.apply(pop)
                ex.probe("fault.corrupt.before_last_edit")
        op = dict(target_op, env=env)
        res = b.apply(op)
        b.w.hang = False
        proxied_ran = False
        fired = fault["family"] == "corrupt"
        try:
            with open(os.path.join(broot, "simgit.trace")) as f:
                for ln in f:
                    parts = ln.rstrip("\n").split("\t")
                    if len(parts) >= 6 and parts[4] == "1":
                        proxied_ran = True
                    if fault["family"] == "git" and len(parts) >= 6 and parts[0].isdigit() and int(parts[0]) == fault["idx"]:
                        fired = True
        except OSError:
            pass
        if fault["family"] == "journal":
            try:
                with open(os.path.join(broot, "verif.trace")) as f:
                    fired = any("\tverdict\t" in ln for ln in f)
            except OSError:
                pass
        if fired:
            ex.gen_state["fired"] = True
            ex.probe("fault.%s.fired" % ("kill" if fault.get("kind") == "kill" else fault["family"]))
            ex.fault("%s.%s" % (fault["family"], fault["kind"].split(":")[0]))
        state_b = observable_state(b.w, repo_b)
        code = res.get("code")
        killed = fault.get("kind") in ("kill", "crash") or (fault.get("kind") or "").startswith("torn") or \
            fault.get("kind2") == "kill"
        outcome = None
        detail = {"argv": target_op["argv"], "fault": fault, "gitai_exit": code, "plain_exit": ref["code"],
                  "proxied_git_ran": proxied_ran, "gitai_err": (res.get("err") or "")[-300:]}
        if res.get("hang"):
            return {"monitor": "fault.outcome", "class": "hang", "detail": detail}
        d_post = diff_states(ref["state"], state_b)
        d_pre = diff_states(ref["pre_b"], state_b)
        if not d_post and (code == ref["code"] or (killed and fired)):
            outcome = "as_git"
            if not (killed and fired):
                out_b = res.get("out", "").replace(broot, "{ROOT}")
                if out_b != ref["out"]:
                    detail["plain_out"] = ref["out"][-200:]
                    detail["gitai_out"] = out_b[-200:]
                    return {"monitor": "fault.outcome", "class": "stdout_differs_after_fault", "detail": detail}
        elif not proxied_ran and not d_pre and (code != 0 or (killed and fired)):
            outcome = "refused_before_git"
            if not (killed and fired) and not (res.get("err") or "").strip():
                return {"monitor": "fault.outcome", "class": "refused_without_diagnostic", "detail": detail}
        else:
            if proxied_ran and code != ref["code"] and not (killed and fired):
                cls = "exit_status_changed_after_git_ran"
            elif proxied_ran and d_post:
                cls = "repository_differs_from_plain_git_" + "_".join(d_post)
            elif not proxied_ran and d_pre:
                cls = "repository_touched_without_running_git_" + "_".join(d_pre)
            elif not proxied_ran and code == 0:
                cls = "git_not_run_but_exit_0"
            else:
                cls = "neither_as_git_nor_refused"
            detail["diff_vs_plain"] = d_post
            detail["diff_vs_before"] = d_pre
            return {"monitor": "fault.outcome", "class": cls, "detail": detail}
        ex.probe("outcome." + outcome)
        ex.gen_state.setdefault("distinct", set()).add(
            "%s|%s|%s|%s|%s" % (trace["cfg"]["target"], fault["family"], fault["kind"],
                                fault.get("point") or fault.get("file", "").split("/")[-1] or " ".join(fault.get("argv", [])[:3]),
                                outcome))
        # a call that reports success but delivers a truncated answer (kind short:*) is not a failure git-ai can see:
        # C07 quantifies over failing calls and a killed wrapper, so the "no attribution is invented" clause is not
        # demanded there (everything else - git's own outcome, later commands, readable notes - still is)
        lying = fault["family"] == "git" and str(fault.get("kind", "")).startswith("short") and not trace.get("strict_short")
        if outcome == "as_git" and not lying:
            from ..engine import in_progress as _inp
            if not _inp(b.w, repo_b):
                v = check_blame(b, repo_b, ex.sessions, one_sided=True, gitai=False)
                if not v and ex.gen_state.get("golden_note_ok") and state_b["HEAD"] != ref["pre_b"]["HEAD"]:
                    v = check_commit_note(b, repo_b, state_b["HEAD"], ex.sessions, two_sided=False, unadded_true_ok=True)
                if v:
                    v["monitor"] = "fault.outcome"
                    v["class"] = "attribution_invented_after_fault_" + v["class"]
                    v["detail"]["fault"] = fault
                    return v
        if not follow_up:
            return None
        # ---- follow-ups, fault free, in both worlds -------------------------------------------
        a.w.restore("post" if outcome == "as_git" else "pre")
        b.w.now_ms = a.w.now_ms      # both worlds share the op-indexed clock
        repo_a = a.repos["r0"]
        if outcome == "refused_before_git" and fault["family"] == "corrupt" and "corrupt_state_blocks_commit" in (trace["cfg"].get("gates") or []):
            # known finding: the refusal persists until the user removes the damaged file
            ex.probe("followup.skipped_known_persistent_refusal")
            return None
        if outcome == "refused_before_git":
            # the user simply retries the command
            ra, rb = Exec_apply(a, target_op), b.apply(dict(target_op))
            if ra.get("code") != rb.get("code") or diff_states(observable_state(a.w, repo_a), observable_state(b.w, repo_b)):
                return {"monitor": "fault.followup", "class": "retry_differs_from_plain_git",
                        "detail": dict(detail, retry_codes=[ra.get("code"), rb.get("code")],
                                       retry_err=(rb.get("err") or "")[-300:])}
        from ..engine import in_progress
        if in_progress(a.w, repo_a):
            return None
        files = a.w.tracked_files(repo_a)
        if files:
            f = sorted(files)[0]
            content = (a.w.read(repo_a, f) or "") + "L%d follow up line\n" % ex.fresh_id()
            ops = [{"op": "edit", "who": HUMAN, "files": {f: content}, "dt": 1000, "pre_ckpt": True},
                   {"op": "git", "argv": ["add", "-A"], "dt": 1000},
                   {"op": "git", "argv": ["commit", "-q", "-m", "follow-up"], "dt": 1000}]
            for fop in ops:
                ra = Exec_apply(a, fop)
                rb = b.apply(fop)
                ra["b"] = rb
                if fault["family"] == "corrupt" and "Pre-commit failed" in (rb.get("err") or "") and \
                        "corrupt_state_blocks_commit" in (trace["cfg"].get("gates") or []):
                    ex.probe("followup.skipped_known_persistent_refusal")
                    return None
                v = twin_compare(ex, fop, ra, -1)
                if v:
                    v["monitor"] = "fault.followup"
                    v["class"] = "later_command_" + v["class"]
                    v["detail"]["fault"] = fault
                    return v
        # notes stay readable, no attribution invented
        notes = Notes(b.w, repo_b)
        for c in notes.commits():
            p = notes.parsed(c)
            if isinstance(p, noteparse.NoteError):
                if fault["family"] == "corrupt" and fault.get("kind") == "flip_byte" and str(p).startswith("bad hash"):
                    # the flipped byte sat inside a session id of the journal: the journal still parses, the garbled id
                    # reaches the note of the NEXT commit as an unknown session.  The line is still marked AI (nothing
                    # is invented, an existing note is not touched); the independent parser's "16 hex digits" rule is
                    # stricter than what C07 promises for a note written from damaged state
                    ex.probe("followup.garbled_session_id_tolerated")
                    continue
                return {"monitor": "fault.followup", "class": "note_unreadable_after_fault",
                        "detail": dict(detail, commit=c, error=str(p))}
        v = None if lying else check_blame(b, repo_b, ex.sessions, one_sided=True, notes=notes)
        if v:
            v["monitor"] = "fault.followup"
            v["class"] = "attribution_invented_after_fault_" + v["class"]
            v["detail"]["fault"] = fault
            return v
        return None


def Exec_apply(a, op):
    """apply in the reference world only (TwinExec.apply would mirror to B)"""
    from ..engine import Exec
    return Exec.apply(a, op)


PROP = C07()
