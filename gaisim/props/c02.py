"""C02 — attribution follows code through history rewriting."""
import json

from .base import Prop
from .. import gen, hist
from ..engine import in_progress, pending_attribution_by_text
from ..oracle import Notes
from .c01 import check_blame, draw_hazards


def branch_tips(w, repo):
    r = w.raw_git(repo, "for-each-ref", "--format=%(refname:short) %(objectname)", "refs/heads")
    return [ln.split() for ln in r.out.splitlines() if ln.strip()]


def protected_state(ex, repo):
    return {"notes": Notes(ex.w, repo).canonical_map(), "pending": pending_attribution_by_text(ex.w, repo)}


class HistoryProp(Prop):
    """shared by the properties whose workload is the rewrite families"""
    families = [f for f in hist.FAMILIES if f not in ("destructive", "partial", "human_overwrites_ai", "ci_rewrite")
                and f not in hist.ONE_SIDED_FAMILIES] + ["fastpath"]     # fastpath: registered by c15 (see ops)
    two_sided = True
    modes = ["wrapper"]

    def header(self, rng, tier, index):
        hz = self.draw_hazards(rng, tier)
        n_sessions = rng.choice([1, 2, 2, 3])
        # one scenario family per history: composed families multiply the known finding classes
        # (DESIGN §4 C02 "claimed space"); the composition knob stays for surveys
        nfam = int(__import__("os").environ.get("GAISIM_NFAM", "1"))
        fams = [rng.choice(self.families) for _ in range(nfam)]
        import os
        if os.environ.get("GAISIM_FAMILIES"):
            fams = os.environ["GAISIM_FAMILIES"].split(",")
        cfg = {"hazards": hz, "families": fams, "n_files": rng.randint(1, 3), "max_lines": 60,
               "human_pre_ckpt": True, "gates": self.gates(), "dirty_buffers": rng.random() < 0.2,
               "maintenance": rng.random() < 0.2, "stage_as_you_go": rng.random() < 0.3,
               "old_author_dates": rng.random() < 0.15}
        idg = gen.IdGen()
        files = gen.initial_files(rng, idg, cfg["n_files"], 10, hz)
        if not any(files.values()):
            files[sorted(files)[0]] = gen.join_lines([gen.new_line(rng, idg) for _ in range(4)])
        mode = rng.choice(self.modes)
        init = {"files": files}
        if rng.random() < 0.25:
            init["exec_files"] = [rng.choice(sorted(files))]      # one of the files is an executable script (100755)
        return {"world": {"mode": mode}, "sessions": ["s%d" % (k + 1) for k in range(n_sessions)],
                "cfg": cfg, "init": init, "next_id": idg.next_id}

    def gates(self):
        import os
        if os.environ.get("GAISIM_GATES") is not None:
            return [x for x in os.environ["GAISIM_GATES"].split(",") if x]
        from ..runner import load_known
        # a gate normally applies to every history workload (the listed defect would show up in any
        # oracle); one that names a gate_scope only restricts the properties listed there
        return sorted({kf["generator_gate"] for kf in load_known().get("findings", [])
                       if kf.get("generator_gate") and (not kf.get("gate_scope") or self.id in kf["gate_scope"])})

    def draw_hazards(self, rng, tier):
        # C02's quantifier is over graphs, ranges and positions, not over file-content shapes
        # (those belong to C01/C05); keep only indentation and multibyte text
        hz = {}
        if rng.random() < 0.3:
            hz["indent"] = True
        if rng.random() < 0.2:
            hz["multibyte"] = True
        if rng.random() < 0.12:
            hz["twins"] = True
        return hz

    MAINTENANCE = [["pack-refs", "--all"], ["pack-refs", "--all"], ["gc", "-q"], ["repack", "-a", "-d", "-q"],
                   ["reflog", "expire", "--expire=now", "--all"]]

    def ops(self, rng, ex, cfg):
        if not cfg.get("maintenance"):
            yield from self.family_ops(rng, ex, cfg)
            return
        # repository maintenance between the steps (refs get packed, objects repacked, reflogs expired): none of it
        # may change what is recorded
        g = hist.G(rng, ex, cfg)
        for op in self.family_ops(rng, ex, cfg):
            yield op
            if op["op"] == "git" and rng.random() < 0.3:
                ex.probe("maintenance")
                yield g.git(*rng.choice(self.MAINTENANCE))

    def family_ops(self, rng, ex, cfg):
        from . import c09, c15  # noqa: F401  (they register the renames and fastpath families)
        g = hist.G(rng, ex, cfg)
        for k, fam in enumerate(cfg["families"]):
            if k:
                yield from hist.cleanup_branches(g)
            ex.probe("family." + fam)
            yield from hist.FAMILIES[fam](g)
        if g.in_progress():
            return
        if g.dirty():
            yield from g.commit_all()
        if ex.gen_state.get("aborted") and rng.random() < 0.6 and not (
                ex.gen_state.get("aborted_kind") == "rebase" and g.gated("hooks_rebase_abort_masks_hooks")):
            # life goes on after an aborted operation: the next piece of AI work must be recorded as usual
            ex.probe("work_after_abort")
            yield from g.some_edits(n_ai=(1, 2), n_human=(0, 1))
            yield from g.commit_all()

    def abstract(self, ex, trace):
        import hashlib
        shape = [trace.get("cfg", {}).get("families"), trace.get("world", {}).get("mode"),
                 [(o["op"], o.get("who", "") != "human" if o["op"] == "edit" else " ".join(o.get("argv", [])[:2]),
                   (o.get("desc") or {}).get("kind"), (o.get("desc") or {}).get("pos")) for o in trace["ops"]]]
        return hashlib.sha256(json.dumps(shape, sort_keys=True, default=str).encode()).hexdigest()[:16]


class C02(HistoryProp):
    id = "C02"
    quick_runs, thorough_runs = 500, 8000
    quick_budget_s, thorough_budget_s = 170, 1800
    rule = ("one run = base commit + 1..3 composed scenario families (plain commits, rebase plain/--onto/-i with "
            "reorder/squash/fixup/drop/edit/reword, cherry-pick one/range, amend, merge, merge --squash, reset "
            "--soft/--mixed + re-commit whole or in pieces, stash push + upstream change + pop/apply, switch/checkout "
            "carrying work - also to a branch at another commit with --merge -, git pull in its forms (ff with pending work, "
            "--rebase, --rebase --autostash, merge), pathspec reset / stash, amend after a partial commit, the rebase / "
            "cherry-pick note-copy shortcut classes, retry after an aborted rebase / cherry-pick and further AI work "
            "after an abort, dry-run/failing commands), each with a drawn position class of the upstream change "
            "(above/below/interleaved/other file/conflicting) and conflicts resolved (union/ours/theirs) and continued "
            "or aborted; oracle = Ledger vs overlay and git-ai blame at HEAD after every rewriting/committing step and at "
            "every branch tip at the end, plus notes/pending-attribution unchanged across aborted, failed and dry-run "
            "operations. distinct = digest of family list x op/edit/position sequence; non-trivial = an AI line observed")
    assumptions = ["agent protocol as in C01; humans checkpoint before editing (the plain un-checkpointed human edit "
                   "is explored by C04/C14)", "moves are not generated", "lines without a run-unique id are one-sided only"]
    expected_probes = ["ai_lines_observed", "conflict.stop", "rebase.rewrote"] + ["family." + f for f in hist.FAMILIES]

    def before_op(self, ex, i, op, cfg):
        if op["op"] == "git" and (op.get("rewrite") or op.get("aborts")):
            repo = ex.repo(op)
            if not in_progress(ex.w, repo):
                ex.gen_state["saved"] = protected_state(ex, repo)

    def monitor(self, ex, i, op, res, cfg):
        if op["op"] == "edit":
            if res.get("code"):
                return {"monitor": "checkpoint", "class": "checkpoint_failed",
                        "detail": {"codes": res.get("codes"), "err": res.get("err")}}
            return None
        if op.get("relax") == "one_sided":
            ex.gen_state["one_sided"] = True
        if op["op"] == "ci_run" and res.get("merge_sha"):
            # the CI rewrite: the merge commit(s) made by plain git on the server must carry the attribution
            ex.probe("ci.checked")
            if res.get("code"):
                return {"monitor": "ci.run", "class": "ci_rewrite_failed",
                        "detail": {"code": res.get("code"), "err": (res.get("err") or "")[-400:]}}
            return check_blame(ex, ex.repos["ci"], ex.sessions, rev=res["merge_sha"],
                               one_sided=(not self.two_sided) or ex.gen_state.get("one_sided", False))
        if op["op"] != "git":
            return None
        repo = ex.repo(op)
        if op.get("aborts"):
            if in_progress(ex.w, repo):
                return None
            before = ex.gen_state.get("saved")
            after = protected_state(ex, repo)
            if before is not None and before != after:
                ex.probe("abort.checked")
                diff = {k: [before[k], after[k]] for k in before if before[k] != after[k]}
                return {"monitor": "abort.state", "class": "aborted_op_changed_" + "_".join(sorted(diff)),
                        "detail": {"argv": op["argv"], "diff": json.loads(json.dumps(diff))[:0] if False else
                                   {k: [str(v[0])[:400], str(v[1])[:400]] for k, v in diff.items()}}}
            ex.probe("abort.checked")
            return None
        if not (op.get("check") or op.get("rewrite")):
            return None
        if in_progress(ex.w, repo):
            return None
        return check_blame(ex, repo, ex.sessions,
                           one_sided=(not self.two_sided) or ex.gen_state.get("one_sided", False))

    def final(self, ex, cfg):
        repo = ex.repos["r0"]
        if in_progress(ex.w, repo):
            return None
        notes = Notes(ex.w, repo)
        for name, sha in branch_tips(ex.w, repo):
            v = check_blame(ex, repo, ex.sessions, rev=sha, notes=notes, gitai=False,
                            one_sided=(not self.two_sided) or ex.gen_state.get("one_sided", False))
            if v:
                v["detail"]["branch"] = name
                return v
        return None


PROP = C02()
