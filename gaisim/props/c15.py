"""C15 — the note-remapping shortcut gives the same answer as full recomputation."""
import os

from .c02 import C02
from .. import hist
from ..engine import in_progress
from ..pair import PairExec, compare_pair


def fam_fastpath(g):
    """rebase / cherry-pick where upstream touches other files only (shortcut precondition holds for
    all pairs), some pairs only, or none"""
    rng = g.rng
    files = g.worktree_files()
    if len(files) < 2:
        yield g.human_edit(new_file=True)
        yield from g.commit_all()
        files = g.worktree_files()
    path = rng.choice(files)
    base = g.branch()
    klass = rng.choice(["all", "all", "some", "none", "reorder"])
    if g.cfg.get("many_files"):
        klass = "many"
    g.ex.probe("fastpath.class." + klass)
    if klass == "many":
        # more AI-touched files in the rewritten range than fit one pathspec list (the code switches strategy above
        # 1000 paths): one agent report creates them, upstream changes the one file they all share with history
        yield g.git("checkout", "-q", "-b", "feat")
        op = g.ai_edit(path=path, kinds=["insert", "append"])
        for k in range(g.cfg["many_files"]):
            op["files"]["many/f%04d.txt" % k] = "L%d generated line\n" % g.ex.fresh_id()
        op.pop("dirty", None)
        yield op
        yield from g.commit_all()
        yield g.git("checkout", "-q", base)
        yield g.human_edit(path=path, kinds=["insert"], pos="top", max_block=2)
        yield from g.commit_all()
        yield g.git("checkout", "-q", "feat")
        yield g.git("rebase", base, rewrite=True)
        yield from hist.resolve_loop(g, ["rebase", "--continue"], ["rebase", "--abort"], must_abort=True)
        return
    if klass == "reorder":
        # commits that touch different files are reordered: the tip trees agree, the pairs do not
        name = "feat"
        yield g.git("checkout", "-q", "-b", name)
        k = min(len(files), rng.randint(2, 3))
        for f in rng.sample(files, k):
            yield from g.some_edits(n_ai=(1, 2), n_human=(0, 0), path=f)
            yield from g.commit_all()
        yield g.git("checkout", "-q", base)
        if rng.random() < 0.5:
            yield g.human_edit(new_file=True)
            yield from g.commit_all()
        yield g.git("checkout", "-q", "feat")
        plan = rng.choice(["reverse", "swap:0,1"])
        yield g.git("rebase", "-i", base, env=g.seq_env(plan), rewrite=True, plan=plan)
        yield from hist.resolve_loop(g, ["rebase", "--continue"], ["rebase", "--abort"], must_abort=True)
        return
    n = rng.randint(1, 3)
    name = rng.choice(["feat", "src"])
    yield g.git("checkout", "-q", "-b", name)
    restricted = (["insert", "delete", "replace", "reindent", "append"]
                  if g.gated("rebase_human_intraline_edit") else None)
    for k in range(n):
        # AI work stays inside `path` so that the other files are free for upstream
        yield from g.some_edits(n_ai=(1, 2), n_human=(0, 1), path=path, human_kinds=restricted)
        yield from g.commit_all()
    yield g.git("checkout", "-q", base)
    others = [f for f in files if f != path]
    for _ in range(rng.randint(1, 2)):
        if klass == "all":
            yield g.human_edit(path=rng.choice(others)) if others else g.human_edit(new_file=True)
        elif klass == "none":
            yield hist.upstream_change(g, rng.choice(["above", "below"]), path)
        else:
            yield hist.upstream_change(g, rng.choice(["above", "other_file"]), path)
        yield from g.commit_all()
    if name == "feat":
        yield g.git("checkout", "-q", "feat")
        yield g.git("rebase", base, rewrite=True)
        yield from hist.resolve_loop(g, ["rebase", "--continue"], ["rebase", "--abort"], must_abort=True)
    else:
        if n > 1 and rng.random() < 0.6:
            yield g.git("cherry-pick", "src~%d..src" % n, rewrite=True)
        else:
            yield g.git("cherry-pick", "src", rewrite=True)
        yield from hist.resolve_loop(g, ["cherry-pick", "--continue"], ["cherry-pick", "--abort"], must_abort=True)


hist.FAMILIES.setdefault("fastpath", fam_fastpath)


class C15(C02):
    id = "C15"
    families = ["fastpath"]
    quick_runs, thorough_runs = 300, 4000
    quick_budget_s, thorough_budget_s = 170, 1800
    rule = ("one run = a rebase or cherry-pick (single commit or range, 1..3 commits) whose upstream commits touch other "
            "files only (shortcut applies to all pairs), a mix, or the AI-touched file itself (shortcut must decline), "
            "executed twice from identical worlds: normally, and with the guarded buggify switch decline_fast_path that "
            "forces the full content-replay algorithm; for every rewritten commit the two notes must be equivalent "
            "(files, sessions, line sets, prompt agent ids, base = rewritten commit). Reach probes fastpath.*.taken are "
            "read from the first execution. distinct = digest of class x ops; non-trivial = the shortcut was actually "
            "taken in the first execution and an AI line observed")
    assumptions = ["conflicting rebases are aborted in both executions (conflicts are C02's subject)"]
    expected_probes = ["fastpath.rebase.taken", "fastpath.cherry_pick.taken", "fastpath.class.all", "fastpath.class.none",
                       "fastpath.class.some", "fastpath.class.reorder", "ai_lines_observed"]

    def make_exec(self, root, trace):
        ex = PairExec(root, trace)
        ex.w.extra_env["GIT_AI_VERIF_TRACE"] = os.path.join(ex.w.root, "verif.trace")
        return ex

    def header(self, rng, tier, index):
        h = super().header(rng, tier, index)
        h["variant"] = {"env": {"GIT_AI_VERIF_FLAGS": "decline_fast_path"}}
        h["cfg"]["n_files"] = 3
        if index == 5 or (tier != "quick" and index % 150 == 75):
            # one run per quick batch (one in 150 in the thorough tier): the rewritten range touches more files than the
            # 1000-path limit of a pathspec list (the run costs 30-70 s, so it is not drawn more often)
            h["cfg"]["many_files"] = 1001 + (index % 7)
            h["cfg"]["maintenance"] = False
        return h

    def draw_hazards(self, rng, tier):
        return {"names": True} if rng.random() < 0.3 else {}

    def before_op(self, ex, i, op, cfg):
        pass

    def monitor(self, ex, i, op, res, cfg):
        if op["op"] != "git" or not op.get("rewrite"):
            return None
        if in_progress(ex.w, ex.repos["r0"]):
            return None
        try:
            with open(os.path.join(ex.w.root, "verif.trace")) as f:
                for ln in f:
                    if "\tprobe\tfastpath." in ln:
                        ex.probe(ln.rstrip("\n").split("\t")[-1])
                        ex.gen_state["taken"] = True
            os.remove(os.path.join(ex.w.root, "verif.trace"))
        except OSError:
            pass
        files = None
        if cfg.get("many_files"):
            # (blame of a sample of the generated files only: a thousand blames would dominate the run)
            tracked = ex.w.tracked_files(ex.repos["r0"])
            files = [f for f in tracked if not f.startswith("many/")] + [f for f in tracked if f.startswith("many/")][:4]
        v = compare_pair(ex, what=("blame",), files=files) or self.compare_notes_on_added_lines(ex)
        if v:
            v["detail"]["shortcut_taken"] = bool(ex.gen_state.get("taken"))
        return v

    def compare_notes_on_added_lines(self, ex):
        """Equivalence on the entries blame can consult: for every commit whose two notes differ
        textually, restrict both to the lines that commit adds.  (The full replay also lists the
        carried-over state of the whole file - see finding C05-rebase_note_lines_beyond_file.)"""
        from ..oracle import Notes
        from .. import noteparse
        from .c01 import added_lines
        a, b = ex, ex.b
        ra, rb = a.repos["r0"], b.repos["r0"]
        na, nb = Notes(a.w, ra), Notes(b.w, rb)
        ca, cb = na.canonical_map(), nb.canonical_map()
        commits = sorted(set(ca) | set(cb))
        if "replay_intermediate_notes" in (ex.trace.get("cfg", {}).get("gates") or []):
            # known finding: the full replay credits lines of the earlier commits of a range with the
            # authors they have at the end of the range; only the tip is exact
            commits = [c for c in commits if c == a.w.head(ra)]
        for c in commits:
            if ca.get(c) == cb.get(c):
                if isinstance(ca.get(c), dict) and ca[c].get("files"):
                    ex.probe("ai_lines_observed")
                continue
            pa, pb = na.parsed(c), nb.parsed(c)
            if pa is None or pb is None or isinstance(pa, noteparse.NoteError) or isinstance(pb, noteparse.NoteError):
                return {"monitor": "pair.notes", "class": "note_missing_or_unparsable_in_one_execution",
                        "detail": {"commit": c, "a": str(ca.get(c))[:200], "b": str(cb.get(c))[:200]}}
            if pa["meta"].get("base_commit_sha") != pb["meta"].get("base_commit_sha"):
                return {"monitor": "pair.notes", "class": "base_commit_differs", "detail": {"commit": c}}
            parent = a.w.head(ra, c + "^")
            for path in sorted(set(pa["files"]) | set(pb["files"])):
                al = added_lines(a.w, ra, parent, c, path)
                ma = {n: h for n, h in noteparse.line_map(pa, path).items() if n in al}
                mb = {n: h for n, h in noteparse.line_map(pb, path).items() if n in al}
                if ma:
                    ex.probe("ai_lines_observed")
                if ma != mb:
                    return {"monitor": "pair.notes", "class": "notes_differ_on_lines_the_commit_adds",
                            "detail": {"commit": c, "path": path, "is_tip": c == a.w.head(ra), "shortcut": sorted(ma.items())[:12],
                                       "full_replay": sorted(mb.items())[:12]}}
            ka = sorted((pa["meta"].get("prompts") or {}))
            kb = sorted((pb["meta"].get("prompts") or {}))
            used_a = {h for p in pa["files"].values() for h, _ in p}
            if not used_a <= set(kb) :
                return {"monitor": "pair.notes", "class": "prompt_records_differ", "detail": {"commit": c, "a": ka, "b": kb}}
        return None

    def final(self, ex, cfg):
        return None

    def nontrivial(self, ex, cfg):
        return bool(ex.gen_state.get("taken")) and bool(ex.probes.get("ai_lines_observed"))


PROP = C15()
