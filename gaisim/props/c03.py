"""C03 — nothing a person wrote is ever attributed to an AI session (one-sided)."""
from .. import hist
from .c02 import C02


class C03(C02):
    id = "C03"
    two_sided = False
    families = list(hist.FAMILIES) + ["destructive", "destructive", "destructive", "fastpath"]
    quick_runs, thorough_runs = 600, 10000
    quick_budget_s, thorough_budget_s = 170, 1800
    rule = ("one run = base commit + one scenario family over the full porcelain incl. the discard-then-rewrite "
            "family (pending AI work in checkpoints or in INITIAL after a partial commit; path checkout / checkout "
            "HEAD -- path / restore / restore --staged --worktree / reset --hard / checkout -f / switch "
            "--discard-changes / switch -f / stash drop; then human lines at the same places; commit; plus the one-sided "
            "families revert / mv+rm / CI rewrite). Oracle "
            "one-sided: every line reported as AI session S (overlay and git-ai blame at HEAD after each step, every "
            "branch tip at the end) has S among the Ledger authors of that text. distinct = digest of family x "
            "op/edit/position sequence; non-trivial = an AI-attributed line was observed")
    assumptions = ["unique-line regime (every text traceable to its writer)", "losing attribution is accepted",
                   "agent protocol as in C01"]
    expected_probes = ["ai_lines_observed", "family.destructive"] + \
        ["destructive." + c for c in ("checkout_path", "restore", "reset_hard", "checkout_f", "switch_discard", "stash_drop")]

    def draw_hazards(self, rng, tier):
        return {}

    def monitor(self, ex, i, op, res, cfg):
        if op.get("destructive"):
            return None
        return super().monitor(ex, i, op, res, cfg)


PROP = C03()
