"""C20 — agent hook ingestion never fails the agent and never escapes the repository.

Faults on the agent->git-ai channel: the payload is cut at every byte (argv form and stdin EOF),
fields are deleted / type-flipped / oversized, deliveries are duplicated, and the paths they name
point anywhere (inside, outside, nested repo, sibling repo, bare repo, nowhere)."""
import copy
import json
import os

from .base import Prop
from ..engine import Exec
from ..world import GITAI

PRESETS = ["claude", "codex", "gemini", "continue-cli", "cursor", "github-copilot", "amp", "ai_tab", "agent-v1",
           "droid", "opencode", "mock_ai"]
FIX = "/repo/tests/fixtures"


def seed_payload(preset, repo, path):
    """a plausible valid payload for each preset (field names as the presets read them)"""
    ap = os.path.join(repo, path)
    if preset == "agent-v1":
        return {"type": "ai_agent", "repo_working_dir": repo, "edited_filepaths": [path],
                "transcript": {"messages": [{"type": "user", "text": "hi"}]}, "agent_name": "simagent", "model": "m1",
                "conversation_id": "c20"}
    if preset == "ai_tab":
        return {"hook_event_name": "after_edit", "tool": "simtab", "model": "tabm", "repo_working_dir": repo,
                "edited_filepaths": [ap], "will_edit_filepaths": [ap], "dirty_files": {ap: "x\n"}}
    common = {"cwd": repo, "hook_event_name": "PostToolUse", "session_id": "s-c20", "conversation_id": "c-c20",
              "tool_name": "Edit", "tool_input": {"file_path": ap, "path": ap}, "model": "m1",
              "workspace_roots": [repo], "edited_filepaths": [ap], "file_path": ap, "thread_id": "T-c20",
              "generation_id": "g1", "repo_working_dir": repo, "hook_event": "afterFileEdit", "event": "afterFileEdit"}
    tp = {"claude": "example-claude-code.jsonl", "codex": "codex-session-simple.jsonl", "gemini": "gemini-session-simple.json",
          "continue-cli": "continue-cli-session-simple.json", "github-copilot": "copilot_session_simple.json",
          "droid": "droid-session.jsonl"}.get(preset)
    if tp:
        common["transcript_path"] = os.path.join(FIX, tp)
        common["chat_session_path"] = os.path.join(FIX, tp)
    if preset == "cursor":
        common["hook_event_name"] = "afterFileEdit"
    if preset == "github-copilot":
        common["hook_event_name"] = "after_edit"
        common["workspace_folder"] = repo
    return common


def alt_payload(preset, payload):
    """a second event shape of the same preset (the other hook the integration fires), or None"""
    p = copy.deepcopy(payload)
    if preset == "github-copilot":
        # VS Code native hooks
        p["hook_event_name"] = "PostToolUse"
        p["tool_name"] = "copilot_insertEdit"
        return p
    if preset == "claude":
        p["hook_event_name"] = "PreToolUse"
        return p
    if preset == "cursor":
        p["hook_event_name"] = "beforeSubmitPrompt"
        return p
    if preset == "ai_tab":
        p["hook_event_name"] = "before_edit"
        return p
    return None


def mutations(rng, payload, world_paths):
    """(label, payload-as-string) variants: deletions, type flips, oversize, foreign paths"""
    out = []
    keys = sorted(payload)
    for k in keys:
        p = copy.deepcopy(payload)
        del p[k]
        out.append(("del:" + k, json.dumps(p)))
        for flip, val in (("null", None), ("int", 7), ("list", ["x", 1, None]), ("obj", {"a": {"b": []}}), ("str", "zzz"),
                          ("bool", True), ("emptystr", ""), ("emptylist", [])):
            p = copy.deepcopy(payload)
            p[k] = val
            out.append(("flip:%s:%s" % (k, flip), json.dumps(p)))
    big = copy.deepcopy(payload)
    for k in keys:
        if isinstance(big[k], str):
            big[k] = big[k] + "A" * 1200000
            break
    out.append(("oversize", json.dumps(big)))
    deep = "[" * 3000 + "]" * 3000
    out += [("garbage:empty", ""), ("garbage:text", "not json at all"), ("garbage:deep", deep), ("garbage:num", "123"),
            ("garbage:nul", "{\"a\":\"\\u0000\"}"), ("garbage:arr", "[1,2,3]"), ("garbage:unicode", "{\"cwd\":\"😀\"}")]
    for label, fp in world_paths:
        p = deep_replace(copy.deepcopy(payload), payload_path(payload), fp) if payload_path(payload) else copy.deepcopy(payload)
        out.append(("path:" + label, json.dumps(p)))
    return out


def deep_replace(obj, old, new):
    if isinstance(obj, str):
        return new if obj == old else obj
    if isinstance(obj, list):
        return [deep_replace(x, old, new) for x in obj]
    if isinstance(obj, dict):
        return {(new if k == old else k): deep_replace(v, old, new) for k, v in obj.items()}
    return obj


def payload_path(p):
    if isinstance(p.get("tool_input"), dict) and p["tool_input"].get("file_path"):
        return p["tool_input"]["file_path"]
    for k in ("edited_filepaths", "will_edit_filepaths"):
        if p.get(k):
            return p[k][0]
    return None


class C20(Prop):
    id = "C20"
    level = "exploration"
    quick_runs, thorough_runs = 48, 600
    quick_budget_s, thorough_budget_s = 170, 1500
    rule = ("one task = one preset (claude, codex, gemini, continue-cli, cursor, github-copilot, amp, ai_tab, agent-v1, "
            "droid, opencode, mock_ai) x one fault family in a world with a repository layout (single repo, nested repo, "
            "multi-repo workspace whose root is no repository, bare repo, no repo) and AI work in flight: (a) truncation "
            "of a valid payload at EVERY byte offset (quick: every 3rd), delivered as argv and as stdin with EOF; (b) every "
            "field deleted and flipped to 8 other JSON types, oversize (1.2 MB) and non-JSON payloads, duplicated delivery; "
            "(b') the same for a second event shape of the preset where it has one (VS Code native Copilot hooks, Claude "
            "PreToolUse, Cursor beforeSubmitPrompt, ai_tab before_edit); (c) the named file absolute / relative / multi-byte "
            "first character / missing / outside / in the nested repo / in the sibling repo / in "
            "the bare repo / nowhere, started from each layout's directories. Oracle per delivery: exit status 0, no panic "
            "text, within the watchdog; afterwards every checkpoints.jsonl in every repository parses line by line, every "
            "entry names a relative path without '..' whose nearest enclosing repository is the one holding the log, and "
            "files in no repository produced no state; one report naming files of several repositories (outer + nested, siblings, "
            "both orders, started from the workspace root) leaves a new AI entry for each file in the repository that contains it; finally the in-flight work must still commit through the wrapper. evaluations = deliveries; distinct = (preset, fault label class, layout, outcome)")
    assumptions = ["transcript fixtures shipped in /repo/tests/fixtures are used for presets that re-fetch transcripts",
                   "payload shapes are built from the field names the presets read; a preset rejecting a seed payload "
                   "still has to exit 0"]
    expected_probes = ["delivery.argv", "delivery.stdin", "outcome.recorded", "outcome.ignored", "layout.nested",
                       "layout.workspace", "layout.bare", "layout.norepo"]

    def header(self, rng, tier, index):
        preset = PRESETS[index % len(PRESETS)]
        family = ["truncate", "mutate", "paths", "mutate"][(index // len(PRESETS)) % 4]
        return {"world": {"mode": "wrapper"}, "sessions": ["s1"], "cfg": {"preset": preset, "family": family, "tier": tier},
                "init": {"files": {"a.txt": "L1 base\nL2 base\nL3 base\n", "src/b.txt": "L4 base\n"}}, "next_id": 100, "ops": []}

    # ------------------------------------------------------------------ world layout
    def build_layout(self, ex):
        w = ex.w
        r0 = ex.repos["r0"]
        lay = {"r0": r0}
        inner = os.path.join(r0, "vendor", "inner")
        os.makedirs(inner)
        w.raw_git(inner, "init", "-q")
        w.write(inner, "in.txt", "L5 inner\n")
        w.raw_git(inner, "add", "-A")
        w.raw_git(inner, "commit", "-q", "-m", "inner")
        lay["inner"] = inner
        ws = os.path.join(w.root, "ws")
        for name in ("p1", "p2"):
            # sibling repositories whose directory names are in a string-prefix relation
            d = os.path.join(ws, {"p1": "app", "p2": "app-docs"}[name])
            os.makedirs(d)
            w.raw_git(d, "init", "-q")
            w.write(d, "f.txt", "L6 %s\n" % name)
            w.raw_git(d, "add", "-A")
            w.raw_git(d, "commit", "-q", "-m", name)
            lay[name] = d
        lay["ws"] = ws
        bare = os.path.join(w.root, "bare.git")
        os.makedirs(bare)
        w.raw_git(bare, "init", "-q", "--bare")
        lay["bare"] = bare
        w.write(r0, "\u00fcbersicht.md", "L8 uml\n")
        w.write(r0, "\u65e5\u672c/x.txt", "L9 cjk\n")
        w.write(r0, "\U0001f600.txt", "L12 emoji\n")
        norepo = os.path.join(w.root, "plain")
        os.makedirs(norepo)
        w.write(norepo, "loose.txt", "L7 loose\n")
        lay["norepo"] = norepo
        return lay

    def world_paths(self, lay):
        r0 = lay["r0"]
        return [("abs_in_repo", os.path.join(r0, "a.txt")), ("relative", "a.txt"), ("missing", os.path.join(r0, "nope.txt")),
                ("dotdot", os.path.join(r0, "..", "plain", "loose.txt")), ("outside", os.path.join(lay["norepo"], "loose.txt")),
                ("nested_repo", os.path.join(lay["inner"], "in.txt")), ("sibling_repo", os.path.join(lay["p2"], "f.txt")),
                ("bare", os.path.join(lay["bare"], "HEAD")), ("nowhere", "/nonexistent/dir/x.txt"), ("dir", r0),
                ("git_internal", os.path.join(r0, ".git", "config")), ("root", "/"), ("empty", ""),
                ("subdir_rel", "src/b.txt"), ("weird", os.path.join(r0, "a.txt\n../../x")),
                # names whose first character is multi-byte (relative and absolute)
                ("rel_multibyte", "\u00fcbersicht.md"), ("rel_cjk", "\u65e5\u672c/x.txt"),
                ("abs_multibyte", os.path.join(r0, "\u00fcbersicht.md")), ("rel_emoji", "\U0001f600.txt")]

    # ------------------------------------------------------------------ delivery + oracle
    def deliver(self, ex, preset, payload, form, cwd):
        w = ex.w
        if form == "argv":
            if len(payload) > 120000:
                form = "stdin"
            else:
                return w._spawn([GITAI, "checkpoint", preset, "--hook-input", payload], cwd, w.env())
        return w._spawn([GITAI, "checkpoint", preset, "--hook-input", "stdin"], cwd, w.env(), stdin=payload.encode("utf-8", "replace"))

    def check_state(self, ex, lay):
        """journals readable and confined"""
        repos = {k: lay[k] for k in ("r0", "inner", "p1", "p2")}
        roots = sorted(repos.values(), key=len, reverse=True)
        for name, repo in repos.items():
            base = os.path.join(repo, ".git", "ai", "working_logs")
            if not os.path.isdir(base):
                continue
            for d in sorted(os.listdir(base)):
                cp = os.path.join(base, d, "checkpoints.jsonl")
                if d.startswith("old-") or not os.path.isfile(cp):
                    continue
                with open(cp, "rb") as f:
                    data = f.read().decode("utf-8", "replace")
                for ln in data.splitlines():
                    if not ln.strip():
                        continue
                    try:
                        j = json.loads(ln)
                    except ValueError:
                        return {"class": "working_log_unreadable", "detail": {"repo": name, "line": ln[:200]}}
                    for e in j.get("entries", []):
                        f = e.get("file", "")
                        full = os.path.realpath(os.path.join(repo, f))
                        if os.path.isabs(f) or not (full == repo or full.startswith(repo + os.sep)):
                            return {"class": "entry_path_escapes_repository", "detail": {"repo": name, "file": f}}
                        owner = next((r for r in roots if full == r or full.startswith(r + os.sep)), None)
                        if owner != repo:
                            return {"class": "entry_recorded_in_wrong_repository",
                                    "detail": {"repo": name, "file": f, "owner": owner}}
        for stray in (os.path.join(lay["norepo"], ".git"), os.path.join(lay["ws"], ".git")):
            if os.path.exists(stray):
                return {"class": "state_created_outside_any_repository", "detail": {"path": stray}}
        # a bare repository holds no files: it may get an (empty) private directory but no attribution
        bwl = os.path.join(lay["bare"], "ai", "working_logs")
        if os.path.isdir(bwl):
            for d in os.listdir(bwl):
                cp = os.path.join(bwl, d, "checkpoints.jsonl")
                if os.path.isfile(cp) and os.path.getsize(cp) > 0:
                    with open(cp) as f:
                        if any('"entries":[{' in ln.replace(" ", "") for ln in f):
                            return {"class": "attribution_recorded_in_bare_repository", "detail": {"path": cp}}
        return None

    def recorded_counts(self, lay, files):
        """per named file: number of non-human working-log entries for it in the repository that contains it"""
        roots = sorted((lay[k] for k in ("r0", "inner", "p1", "p2")), key=len, reverse=True)
        out = {}
        for fp in files:
            owner = next(r for r in roots if fp.startswith(r + os.sep))
            rel = os.path.relpath(fp, owner)
            base = os.path.join(owner, ".git", "ai", "working_logs")
            n = 0
            if os.path.isdir(base):
                for d in sorted(os.listdir(base)):
                    cp = os.path.join(base, d, "checkpoints.jsonl")
                    if os.path.isfile(cp):
                        with open(cp) as f:
                            for x in f.read().splitlines():
                                if x.strip():
                                    j = json.loads(x)
                                    if j.get("kind") != "Human":
                                        n += sum(1 for e in j.get("entries", []) if e.get("file") == rel)
            out[fp] = n
        return out

    def expect_recorded(self, ex, lay, files, ctx, res, before):
        """every named (and just modified) file got a new AI entry in the repository that contains it"""
        after = self.recorded_counts(lay, files)
        for fp in files:
            if after[fp] <= before.get(fp, 0):
                return {"monitor": "hook.state", "class": "file_not_recorded_in_the_repository_that_contains_it",
                        "detail": dict(ctx, file=fp.replace(ex.w.root, "{ROOT}"), err=res.err[-300:])}
        return None

    def judge(self, ex, res, lay, ctx):
        if res.hang:
            return {"monitor": "hook.delivery", "class": "hang", "detail": ctx}
        if res.code != 0:
            return {"monitor": "hook.delivery", "class": "nonzero_exit", "detail": dict(ctx, code=res.code, err=res.err[-300:])}
        if "panicked at" in res.err or "RUST_BACKTRACE" in res.err:
            return {"monitor": "hook.delivery", "class": "panic", "detail": dict(ctx, err=res.err[-400:])}
        v = self.check_state(ex, lay)
        if v:
            v["monitor"] = "hook.state"
            v["detail"].update(ctx)
            return v
        return None

    def run_generated(self, rng, root, tier, index, full_digests=False):
        trace = self.header(rng, tier, index)
        ex = Exec(root, trace)
        ex.init()
        lay = self.build_layout(ex)
        cfg = trace["cfg"]
        preset, family = cfg["preset"], cfg["family"]
        r0 = lay["r0"]
        # AI work in flight in r0
        w = ex.w
        ex.apply({"op": "edit", "who": "s1", "files": {"a.txt": "L1 base\nL10 ai line\nL11 ai line\nL2 base\nL3 base\n"}, "dt": 1000})
        seed = seed_payload(preset, r0, "a.txt")
        seed_s = json.dumps(seed)
        deliveries = []
        cwds = {"r0": r0, "subdir": os.path.join(r0, "src"), "nested": lay["inner"], "workspace": lay["ws"],
                "bare": lay["bare"], "norepo": lay["norepo"], "root": w.root}
        if family == "truncate":
            step = 3 if tier == "quick" else 1
            for n in range(0, len(seed_s) + 1, step):
                for form in ("argv", "stdin"):
                    deliveries.append(("trunc:%d" % n, seed_s[:n], form, "r0"))
            deliveries.append(("full", seed_s, "argv", "r0"))
            deliveries.append(("dup", seed_s, "argv", "r0"))
        elif family == "mutate":
            muts = mutations(rng, seed, [])
            alt = alt_payload(preset, seed)
            if alt is not None:
                muts += [("alt:" + l, x) for l, x in mutations(rng, alt, [])] + [("alt:full", json.dumps(alt))]
            if tier == "quick":
                muts = rng.sample(muts, min(len(muts), 90))
            for label, s in muts:
                deliveries.append((label, s, rng.choice(["argv", "stdin"]), "r0"))
        else:
            for cwd_name in sorted(cwds):
                ex.probe("layout." + cwd_name)
                base_repo = {"nested": lay["inner"], "workspace": lay["p1"]}.get(cwd_name, r0)
                sp = seed_payload(preset, base_repo if cwd_name in ("nested", "workspace") else r0, "a.txt")
                for variant, spv in (("", sp), ("alt:", alt_payload(preset, sp))):
                    if spv is None:
                        continue
                    for label, s in mutations(rng, spv, self.world_paths(lay)):
                        if label.startswith("path:"):
                            deliveries.append((variant + label, s, rng.choice(["argv", "stdin"]), cwd_name))
            if preset == "agent-v1":
                # one report naming files of SEVERAL repositories, started where no repository is: each file must be
                # recorded in the repository that contains it (outer/nested in both orders, siblings in both orders)
                groups = {"outer_inner": [os.path.join(r0, "a.txt"), os.path.join(lay["inner"], "in.txt")],
                          "inner_outer": [os.path.join(lay["inner"], "in.txt"), os.path.join(r0, "src", "b.txt")],
                          "siblings": [os.path.join(lay["p1"], "f.txt"), os.path.join(lay["p2"], "f.txt")],
                          "siblings_rev": [os.path.join(lay["p2"], "f.txt"), os.path.join(lay["p1"], "f.txt")],
                          "three": [os.path.join(r0, "a.txt"), os.path.join(lay["inner"], "in.txt"), os.path.join(lay["p1"], "f.txt")]}
                for gname in sorted(groups):
                    # the workspace root the agent names is a plain directory that CONTAINS the repositories
                    # (the directory the hook is started in bounds the search for repositories)
                    rwd, cwd_name = (lay["ws"], "workspace") if gname.startswith("siblings") else (w.root, "root")
                    pm = dict(seed_payload(preset, rwd, "x"), edited_filepaths=groups[gname])
                    for form in ("argv", "stdin"):
                        deliveries.append(("multi:" + gname, json.dumps(pm), form, cwd_name))
        evals = 0
        viol = None
        distinct = set()
        for label, payload, form, cwd_name in deliveries:
            evals += 1
            expect_sibling = preset == "agent-v1" and label == "path:sibling_repo" and cwd_name in ("workspace", "r0", "subdir")
            if expect_sibling:
                # make sure there is something to report in the sibling repository
                sib = os.path.join(lay["p2"], "f.txt")
                with open(sib, "a") as f:
                    f.write("L%d sibling ai line\n" % ex.fresh_id())
            multi = None
            if label.startswith("multi:"):
                multi = json.loads(payload)["edited_filepaths"]
                for fp in multi:
                    with open(fp, "a") as f:
                        f.write("L%d multi ai line\n" % ex.fresh_id())
                before = self.recorded_counts(lay, multi)
            res = self.deliver(ex, preset, payload, form, cwds[cwd_name])
            ex.probe("delivery." + form)
            ctx = {"preset": preset, "label": label, "form": form, "cwd": cwd_name}
            viol = self.judge(ex, res, lay, ctx)
            if not viol and multi:
                ex.probe("multi.expected")
                viol = self.expect_recorded(ex, lay, multi, ctx, res, before)
            if not viol and expect_sibling:
                ex.probe("sibling.expected")
                found = False
                base = os.path.join(lay["p2"], ".git", "ai", "working_logs")
                if os.path.isdir(base):
                    for d in os.listdir(base):
                        cp = os.path.join(base, d, "checkpoints.jsonl")
                        if os.path.isfile(cp) and '"f.txt"' in open(cp).read():
                            found = True
                if not found:
                    viol = {"monitor": "hook.state", "class": "file_of_sibling_repository_not_recorded_there",
                            "detail": dict(ctx, err=res.err[-300:])}
            outcome = "recorded" if "changed" in res.err and "Checkpoint completed" in res.err else "ignored"
            ex.probe("outcome." + outcome)
            distinct.add("%s|%s|%s|%s" % (preset, label.split(":")[0] + ":" + (label.split(":")[1] if label.startswith(("flip", "path", "garbage")) and ":" in label else ""), cwd_name, outcome))
            if viol:
                trace["delivery"] = {"preset": preset, "payload": payload.replace(w.root, "{ROOT}"), "form": form,
                                     "cwd": cwd_name, "label": label}
                break
        if not viol:
            # the in-flight history must still be committable through the wrapper
            ex.apply({"op": "git", "argv": ["add", "-A", "--", "a.txt", "src"], "dt": 1000})
            r = ex.apply({"op": "git", "argv": ["commit", "-q", "-m", "after deliveries"], "dt": 1000})
            if r.get("code") != 0:
                viol = {"monitor": "hook.history", "class": "commit_fails_after_deliveries",
                        "detail": {"err": (r.get("err") or "")[-300:]}}
        if viol:
            viol["step"] = 0
        res = Prop._result(self, ex, trace, viol)
        res["evals"] = evals
        res["distinct_set"] = sorted(distinct)
        res["nontrivial"] = True
        return res

    def run_trace(self, trace, root, full_digests=False):
        trace = {k: v for k, v in trace.items() if k != "violation"}
        ex = Exec(root, trace)
        ex.init()
        lay = self.build_layout(ex)
        r0 = lay["r0"]
        ex.apply({"op": "edit", "who": "s1", "files": {"a.txt": "L1 base\nL10 ai line\nL11 ai line\nL2 base\nL3 base\n"}, "dt": 1000})
        d = trace.get("delivery")
        viol = None
        if d:
            cwds = {"r0": r0, "subdir": os.path.join(r0, "src"), "nested": lay["inner"], "workspace": lay["ws"],
                    "bare": lay["bare"], "norepo": lay["norepo"], "root": ex.w.root}
            payload = d["payload"].replace("{ROOT}", ex.w.root)
            multi = json.loads(payload)["edited_filepaths"] if d["label"].startswith("multi:") else None
            for fp in multi or []:
                with open(fp, "a") as f:
                    f.write("L%d multi ai line\n" % ex.fresh_id())
            before = self.recorded_counts(lay, multi or [])
            res = self.deliver(ex, d["preset"], payload, d["form"], cwds[d["cwd"]])
            ctx = {"preset": d["preset"], "label": d["label"], "form": d["form"], "cwd": d["cwd"]}
            viol = self.judge(ex, res, lay, ctx)
            if not viol and multi:
                viol = self.expect_recorded(ex, lay, multi, ctx, res, before)
            if viol:
                viol["step"] = 0
        r = Prop._result(self, ex, trace, viol)
        r["evals"] = 1
        return r

    def sample(self, trace):
        return {"preset": trace["cfg"]["preset"], "family": trace["cfg"]["family"], "delivery": trace.get("delivery")}


PROP = C20()
