"""C01 — a commit's AI attribution is exactly the lines the agents wrote."""
import math
import re

from .base import Prop
from .. import gen, noteparse
from ..ledger import HUMAN, split_lines
from ..oracle import Notes, compare_with_ledger, file_at, overlay
from ..world import session_hash

HUNK = re.compile(r"^@@ -(\d+)(?:,(\d+))? \+(\d+)(?:,(\d+))? @@")


def added_lines(world, repo, parent, commit, path):
    """New-side line numbers the commit added to `path` (hunk-aware parse of git's -U0 diff,
    so content that looks like diff syntax cannot confuse it)."""
    args = ["diff", "--no-ext-diff", "--no-textconv", "--no-color", "--no-renames", "-U0"]
    args += [parent or "4b825dc642cb6eb9a060e54bf8d69288fbee4904", commit, "--", path]
    r = world.raw_git(repo, *args)
    out = set()
    lines = r.out.split("\n")
    i = 0
    while i < len(lines):
        m = HUNK.match(lines[i])
        if not m:
            i += 1
            continue
        old_n = int(m.group(2)) if m.group(2) is not None else 1
        new_s = int(m.group(3))
        new_n = int(m.group(4)) if m.group(4) is not None else 1
        out.update(range(new_s, new_s + new_n))
        # skip the hunk body: old_n '-' lines, new_n '+' lines, optional '\' markers
        i += 1
        seen = 0
        while i < len(lines) and seen < old_n + new_n:
            if not lines[i].startswith("\\"):
                seen += 1
            i += 1
    return out


def log_uniform_ms(rng, lo=1, hi=30 * 86400 * 1000):
    return int(math.exp(rng.uniform(math.log(lo), math.log(hi))))


def check_commit_note(ex, repo, commit, sessions, two_sided=True, notes=None, unadded_true_ok=False):
    """Note of `commit` against the Ledger: exactly the AI lines that commit added."""
    w = ex.w
    notes = notes or Notes(w, repo)
    parent = w.head(repo, commit + "^")
    parsed = notes.parsed(commit)
    if isinstance(parsed, noteparse.NoteError):
        return {"monitor": "ledger.note", "class": "note_unparsable", "detail": {"error": str(parsed), "commit": commit}}
    hash_to_session = {session_hash(s): s for s in sessions}
    files = w.tracked_files(repo, commit)
    listed = set(parsed["files"]) if parsed else set()
    for p in sorted(listed - set(files)):
        return {"monitor": "ledger.note", "class": "listed_path_not_in_commit", "detail": {"path": p, "commit": commit}}
    only = (ex.trace.get("cfg") or {}).get("check_only")      # hand-kept scenarios with very many files check a sample
    for path in (files if not only else [f for f in files if f in only]):
        content = file_at(w, repo, commit, path)
        if content is None or "\0" in content:
            continue
        lines = split_lines(content)
        added = added_lines(w, repo, parent, commit, path)
        nm = noteparse.line_map(parsed, path) if parsed else {}
        for n in sorted(nm):
            if n not in added:
                if unadded_true_ok and 0 < n <= len(lines):
                    # (under an injected fault: a note that also lists a line its commit did not add invents nothing as
                    # long as that line really is the session's - blame only consults the lines the commit added)
                    exp0 = ex.ledger.who(lines[n - 1])
                    if exp0 is None or hash_to_session.get(nm[n]) in exp0:
                        continue
                return {"monitor": "ledger.note", "class": "listed_line_not_added",
                        "detail": {"path": path, "line": n, "commit": commit}}
        for n in sorted(added):
            if n > len(lines):
                continue
            text = lines[n - 1]
            exp = ex.ledger.who(text)
            if exp is None:
                continue
            h = nm.get(n)
            rep = HUMAN if h is None else hash_to_session.get(h, "unknown:" + h)
            if rep != HUMAN:
                ex.probe("ai_lines_observed")
            if rep in exp:
                continue
            if rep == HUMAN:
                if two_sided:
                    return {"monitor": "ledger.note", "class": "ai_line_reported_human",
                            "detail": {"path": path, "line": n, "text": text[:120], "expected": sorted(exp)}}
            else:
                cls = "human_line_reported_ai" if exp == {HUMAN} else "wrong_session"
                return {"monitor": "ledger.note", "class": cls,
                        "detail": {"path": path, "line": n, "text": text[:120], "reported": rep,
                                   "expected": sorted(exp)}}
    return None


def check_blame(ex, repo, sessions, rev="HEAD", one_sided=False, notes=None, gitai=True):
    """git-ai blame --json (when the work tree equals rev) and the simulator's overlay vs Ledger."""
    w = ex.w
    notes = notes or Notes(w, repo)
    only = (ex.trace.get("cfg") or {}).get("check_only")
    for path in w.tracked_files(repo, rev):
        if only and path not in only:
            continue
        content = file_at(w, repo, rev, path)
        if content is None or "\0" in content:
            continue
        lines = split_lines(content)
        ov = overlay(w, repo, rev, path, notes)
        if ov is not None:
            for p in compare_with_ledger(lines, ov, ex.ledger, sessions, one_sided):
                return {"monitor": "ledger.blame", "class": p[0],
                        "detail": {"via": "overlay", "path": path, "line": p[1], "text": p[2][:120],
                                   "reported": p[3], "expected": p[4]}}
        if gitai and lines and w.read(repo, path) == content:
            bj, r = w.blame_json(repo, path if not path.startswith("-") else "./" + path)
            if bj is None:
                return {"monitor": "ledger.blame", "class": "blame_failed",
                        "detail": {"path": path, "code": r.code, "err": r.err[-300:]}}
            if any(True for _ in bj[0]):
                ex.probe("ai_lines_observed")
            for p in compare_with_ledger(lines, bj[0], ex.ledger, sessions, one_sided):
                return {"monitor": "ledger.blame", "class": p[0],
                        "detail": {"via": "git-ai blame", "path": path, "line": p[1], "text": p[2][:120],
                                   "reported": p[3], "expected": p[4]}}
    return None


def draw_hazards(rng, tier):
    if rng.random() < 0.45:
        return {}
    hz = {}
    for k, p in (("dups", .4), ("blank", .4), ("crlf", .3), ("no_final_newline", .4), ("multibyte", .4),
                 ("long", .2), ("diffish", .4), ("names", .4), ("indent", .4), ("uspace", .3), ("moves", .3), ("twins", .3)):
        if rng.random() < p:
            hz[k] = True
    return hz


class C01(Prop):
    id = "C01"
    level = "exploration"
    quick_runs, thorough_runs = 800, 12000
    quick_budget_s, thorough_budget_s = 150, 1500
    rule = ("one run = base commit + 2..10 rounds of human / AI-session edits (insert, delete, replace, intra-line "
            "modify, re-indent, append; position classes top/bottom/above/below/inside AI blocks) over 1..4 files "
            "in the unique-line or a drawn hazard regime, clock deltas log-uniform 1 ms..30 d, then add -A + commit "
            "(thorough: up to 3 such cycles); oracle = Ledger vs parsed note, git-ai blame --json and the simulator's "
            "overlay. distinct = digest of (op kind, author kind, edit kind, position class) sequence x world config; "
            "non-trivial = at least one AI-attributed line was observed by the deciding monitor")
    assumptions = ["agents follow the shipped protocol: human checkpoint naming the files before an AI edit, "
                   "ai_agent checkpoint after it", "a moved (cut-and-pasted) line may be credited to its writer or to the mover (no property defines it); every other line stays strictly checked",
                   "blank / whitespace-only lines are unconstrained", "identical line texts written by several "
                   "authors may be assigned to any of those authors (the diff's freedom)",
                   "in 15 % of the runs the checkpoint clock ties or steps back between checkpoints (clock faults)"]
    expected_probes = ["ai_lines_observed", "multi_session", "hazard_regime", "dirty_buffer"]

    def header(self, rng, tier, index):
        hz = draw_hazards(rng, tier)
        n_sessions = rng.choice([1, 1, 2, 3])
        cfg = {"hazards": hz, "rounds": rng.randint(2, 10 if tier == "quick" else 16),
               "cycles": 1 if tier == "quick" else rng.choice([1, 2, 3]),
               "n_files": rng.randint(1, 4), "max_lines": 40 if tier == "quick" else 120,
               "human_pre_ckpt": rng.random() < 0.3, "gates": self.gates()}
        # clock-fault sub-mode (ties and backward steps of the checkpoint clock): drawn only while the
        # finding clock_order is not listed, never mixed into the default mode
        cfg["clock"] = "faulty" if ("clock_order" not in cfg["gates"] and rng.random() < 0.15) else "monotone"
        # some agents report edits from unsaved editor buffers (dirty_files); the editor saves afterwards
        cfg["dirty_buffers"] = rng.random() < 0.3
        idg = gen.IdGen()
        files = gen.initial_files(rng, idg, cfg["n_files"], 12, hz)
        return {"world": {"mode": "wrapper"}, "sessions": ["s%d" % (k + 1) for k in range(n_sessions)],
                "cfg": cfg, "init": {"files": files}, "next_id": idg.next_id}

    def gates(self):
        import os
        if os.environ.get("GAISIM_GATES") is not None:
            return [x for x in os.environ["GAISIM_GATES"].split(",") if x]
        from ..runner import load_known
        return sorted({kf["generator_gate"] for kf in load_known().get("findings", []) if kf.get("generator_gate")})

    def next_op(self, rng, ex, i, cfg):
        st = ex.gen_state.setdefault("c01", {"round": 0, "cycle": 0, "phase": "edit"})
        repo = ex.repos["r0"]
        hz = cfg["hazards"]
        if st["phase"] == "edit":
            if st["round"] >= cfg["rounds"]:
                st["phase"] = "add"
            else:
                st["round"] += 1
                who = rng.choice([HUMAN] + ex.sessions + ex.sessions)
                tracked = ex.w.tracked_files(repo)
                present = sorted(set(tracked) | set(st.setdefault("new_files", [])))
                twin = None
                pool = [p for p in gen.PLAIN_NAMES + (gen.HAZARD_NAMES if hz.get("names") else [])
                        if p not in present]
                if (not present) or (pool and ((rng.random() < 0.12 and len(present) < 6) or
                                               (hz.get("twins") and who != HUMAN and not st.get("twins_done") and rng.random() < 0.4))):
                    path = rng.choice(pool)
                    st["new_files"].append(path)
                    old = None
                    if hz.get("twins") and who != HUMAN and not st.get("twins_done"):
                        # the agent writes a second file with byte-identical content in the same report
                        twin = "twin%d/%s" % (ex.fresh_id(), path.replace("/", "_"))
                        st["new_files"].append(twin)
                        st["twins_done"] = True
                        ex.probe("twin_files")
                else:
                    path = rng.choice(present)
                    old = ex.w.read(repo, path)
                kinds = None
                if old is not None and (hz.get("uspace") or hz.get("moves")):
                    # (wsnorm by another author is the trigger of finding ws_change_next_to_deletion once
                    # ops are merged; when that finding is listed only the line's own writer normalises)
                    gated = False   # (the generator never combines wsnorm with a deletion in one edit)
                    kinds = list(gen.EDIT_KINDS) + (["wsnorm", "wsnorm"] if hz.get("uspace") and not gated else []) + \
                        (["move", "move"] if hz.get("moves") else [])
                new, desc = gen.mutate(rng, ex, old, who, hz,
                                       kinds=["insert"] if old is None else kinds,
                                       max_block=(rng.choice([4, 8, 10]) if hz.get("moves") else 4))
                if len(split_lines(new)) > cfg["max_lines"]:
                    new, desc = gen.mutate(rng, ex, old, who, hz, kinds=["delete"], max_block=10)
                op = {"op": "edit", "who": who, "files": {path: new}, "desc": desc,
                      "dt": log_uniform_ms(rng), "dt2": rng.randint(1, 5000)}
                if twin:
                    op["files"][twin] = new
                if cfg.get("clock") == "faulty" and rng.random() < 0.4:
                    op["dt"] = rng.choice([0, 0, -1, -5000, -86400000])      # tie / NTP step back / VM resume
                    ex.fault("clock.tie" if op["dt"] == 0 else "clock.jump_back")
                if who == HUMAN and cfg.get("human_pre_ckpt") and rng.random() < 0.5:
                    op["pre_ckpt"] = True
                if who != HUMAN and cfg.get("dirty_buffers") and rng.random() < 0.4:
                    op["dirty"] = True
                    ex.probe("dirty_buffer")
                return op
        if st["phase"] == "add":
            st["phase"] = "commit"
            return {"op": "git", "argv": ["add", "-A"], "dt": 1000 + rng.randint(0, 5000)}
        if st["phase"] == "commit":
            st["cycle"] += 1
            st["round"] = 0
            st["phase"] = "edit" if st["cycle"] < cfg["cycles"] else "done"
            return {"op": "git", "argv": ["commit", "-q", "-m", "c%d" % st["cycle"]], "dt": 1000, "check": True}
        return None

    def monitor(self, ex, i, op, res, cfg):
        if op["op"] == "edit":
            if res.get("code"):
                return {"monitor": "checkpoint", "class": "checkpoint_failed",
                        "detail": {"codes": res.get("codes"), "err": res.get("err")}}
            return None
        if not op.get("check"):
            return None
        repo = ex.repos["r0"]
        if res["code"] != 0:
            if "nothing to commit" in (res.get("out", "") + res.get("err", "")):
                return None
            return {"monitor": "git", "class": "commit_failed", "detail": {"err": res["err"][-400:], "out": res["out"][-200:]}}
        if len(ex.sessions) > 1:
            ex.probe("multi_session")
        if cfg.get("hazards"):
            ex.probe("hazard_regime")
        notes = Notes(ex.w, repo)
        head = ex.w.head(repo)
        v = check_commit_note(ex, repo, head, ex.sessions, notes=notes)
        if v:
            return v
        return check_blame(ex, repo, ex.sessions, notes=notes)


PROP = C01()
