"""C05 — every authorship note is well-formed, self-contained and matches its commit."""
from .c02 import C02, HistoryProp
from .. import hist, noteparse, gen
from ..engine import in_progress
from ..oracle import Notes
from ..ledger import split_lines


def line_counts(w, repo, commit, paths):
    out = {}
    tracked = set(w.tracked_files(repo, commit))
    for p in paths:
        if p in tracked:
            r = w.raw_git(repo, "show", "%s:%s" % (commit, p))
            out[p] = len(split_lines(r.out)) if r.code == 0 else 0
    return out


def check_all_notes(ex, repo, cache):
    """the repository-wide invariant; `cache` remembers note blobs already validated"""
    w = ex.w
    notes = Notes(w, repo)
    if notes.dups:
        return {"monitor": "notes.invariant", "class": "object_with_two_notes", "detail": {"objects": notes.dups[:3]}}
    # every annotated object id occurs at exactly one path of the notes tree
    r = w.raw_git(repo, "ls-tree", "-r", "--name-only", "refs/notes/ai")
    if r.code == 0:
        seen = {}
        for path in r.out.splitlines():
            oid = path.replace("/", "")
            if oid in seen:
                return {"monitor": "notes.invariant", "class": "object_at_two_tree_paths",
                        "detail": {"object": oid, "paths": [seen[oid], path]}}
            seen[oid] = path
    for commit in notes.commits():
        blob = notes.blob_of[commit]
        if cache.get(commit) == blob:
            continue
        if w.raw_git(repo, "cat-file", "-t", commit).out.strip() != "commit":
            continue
        p = notes.parsed(commit)
        if isinstance(p, noteparse.NoteError):
            return {"monitor": "notes.invariant", "class": "note_does_not_parse",
                    "detail": {"commit": commit, "error": str(p), "raw": (notes.raw(commit) or "")[:300]}}
        counts = line_counts(w, repo, commit, list(p["files"]))
        probs = noteparse.well_formed_problems(p, commit, counts)
        if probs:
            cls = "note_malformed"
            for key, name in (("base_commit_sha", "wrong_base_commit"), ("not in commit", "lists_absent_path"),
                              ("beyond", "line_beyond_file"), ("without prompt", "hash_without_prompt_record"),
                              ("unsorted", "ranges_unsorted_or_overlapping"), ("non-session", "human_author_listed")):
                if any(key in x for x in probs):
                    cls = name
                    break
            touched = set(x for x in w.raw_git(repo, "diff-tree", "--no-commit-id", "--name-only", "-r", "-z", "--root",
                                               commit).out.split("\0") if x)
            bad_paths = [pth for pth in p["files"] if any(repr(pth) in x for x in probs)]
            return {"monitor": "notes.invariant", "class": cls,
                    "detail": {"commit": commit, "problems": probs[:5],
                               "commit_touches_offending_path": any(pth in touched for pth in bad_paths)}}
        if p["files"]:
            ex.probe("ai_lines_observed")
        ex.probe("notes_checked")
        cache[commit] = blob
    return None


class C05(C02):
    id = "C05"
    families = [f for f in hist.FAMILIES if f not in ("destructive", "human_overwrites_ai")]
    quick_runs, thorough_runs = 1000, 8000
    quick_budget_s, thorough_budget_s = 170, 1800
    rule = ("one run = base commit + one scenario family (commits, rebase forms incl. -i, cherry-pick, amend, merge, "
            "squash, reset, stash, switch, partial commits) with file-name hazards (spaces, quotes, tabs, unicode, leading "
            "dash, nested dirs) in 60% of runs; after EVERY git command every note reachable from refs/notes/ai is checked: "
            "one note per object and one tree path per object, parses under an independent Standard-v3 parser, lists only "
            "paths of its commit, 1-based lines within the blob's line count, sorted non-overlapping ranges, every hash has a "
            "prompt record, base_commit_sha = annotated commit, no human entry. distinct = digest of family x op sequence x "
            "names; non-trivial = a note with attestations was validated")
    assumptions = ["notes-ref size classes beyond one fan-out level are probed by the deep-fanout scenario only",
                   "a tracked file literally named '---' is finding divider_path"]
    expected_probes = ["notes_checked", "ai_lines_observed", "hazard.names"]

    def draw_hazards(self, rng, tier):
        hz = {}
        if rng.random() < 0.6:
            hz["names"] = True
        if rng.random() < 0.3:
            hz["indent"] = True
        return hz

    def before_op(self, ex, i, op, cfg):
        pass

    def monitor(self, ex, i, op, res, cfg):
        if cfg.get("hazards", {}).get("names"):
            ex.probe("hazard.names")
        if op["op"] not in ("git", "gitai"):
            return None
        repo = ex.repo(op)
        return check_all_notes(ex, repo, ex.gen_state.setdefault("note_cache", {}))

    def final(self, ex, cfg):
        return None


PROP = C05()
