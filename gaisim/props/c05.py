"""C05 — every authorship note is well-formed, self-contained and matches its commit."""
import os

from .c02 import C02, HistoryProp
from .. import hist, noteparse, gen
from ..engine import in_progress
from ..oracle import Notes
from ..ledger import split_lines


def line_counts(w, repo, commit, paths):
    out = {}
    tracked = set(w.tracked_files(repo, commit))
    for p in paths:
        if p in tracked:
            r = w.raw_git(repo, "show", "%s:%s" % (commit, p))
            out[p] = len(split_lines(r.out)) if r.code == 0 else 0
    return out


def check_all_notes(ex, repo, cache):
    """the repository-wide invariant; `cache` remembers note blobs already validated"""
    w = ex.w
    notes = Notes(w, repo)
    if notes.dups:
        return {"monitor": "notes.invariant", "class": "object_with_two_notes", "detail": {"objects": notes.dups[:3]}}
    # every annotated object id occurs at exactly one path of the notes tree
    r = w.raw_git(repo, "ls-tree", "-r", "--name-only", "refs/notes/ai")
    if r.code == 0:
        seen = {}
        for path in r.out.splitlines():
            oid = path.replace("/", "")
            if oid in seen:
                return {"monitor": "notes.invariant", "class": "object_at_two_tree_paths",
                        "detail": {"object": oid, "paths": [seen[oid], path]}}
            seen[oid] = path
    real = None
    if len(notes.blob_of) > 2000:
        # a large pre-existing notes ref: validate the notes of the commits this history made
        real = set(w.raw_git(repo, "rev-list", "--all").out.split())
    for commit in notes.commits():
        if real is not None and commit not in real:
            continue
        blob = notes.blob_of[commit]
        if cache.get(commit) == blob:
            continue
        if real is None and w.raw_git(repo, "cat-file", "-t", commit).out.strip() != "commit":
            continue
        p = notes.parsed(commit)
        if isinstance(p, noteparse.NoteError):
            return {"monitor": "notes.invariant", "class": "note_does_not_parse",
                    "detail": {"commit": commit, "error": str(p), "raw": (notes.raw(commit) or "")[:300]}}
        counts = line_counts(w, repo, commit, list(p["files"]))
        probs = noteparse.well_formed_problems(p, commit, counts)
        if probs:
            cls = "note_malformed"
            for key, name in (("base_commit_sha", "wrong_base_commit"), ("not in commit", "lists_absent_path"),
                              ("beyond", "line_beyond_file"), ("without prompt", "hash_without_prompt_record"),
                              ("unsorted", "ranges_unsorted_or_overlapping"), ("non-session", "human_author_listed")):
                if any(key in x for x in probs):
                    cls = name
                    break
            touched = set(x for x in w.raw_git(repo, "diff-tree", "--no-commit-id", "--name-only", "-r", "-z", "--root",
                                               commit).out.split("\0") if x)
            bad_paths = [pth for pth in p["files"] if any(repr(pth) in x for x in probs)]
            return {"monitor": "notes.invariant", "class": cls,
                    "detail": {"commit": commit, "problems": probs[:5],
                               "commit_touches_offending_path": any(pth in touched for pth in bad_paths)}}
        if p["files"]:
            ex.probe("ai_lines_observed")
        ex.probe("notes_checked")
        cache[commit] = blob
    return None


class C05(C02):
    id = "C05"
    families = [f for f in hist.FAMILIES if f not in ("destructive", "human_overwrites_ai")] + ["fastpath"]
    quick_runs, thorough_runs = 1000, 8000
    quick_budget_s, thorough_budget_s = 170, 1800
    rule = ("one run = base commit + one scenario family (commits, rebase forms incl. -i, cherry-pick, amend, merge, "
            "squash, reset, stash, switch, pull, partial commits, revert, mv/rm, and the CI rewrite: server-side squash / rebase "
            "merge with plain git followed by git-ai ci local merge or squash-authorship in a CI clone, whose notes and the "
            "remote's are checked too) with file-name hazards (spaces, quotes, tabs, unicode, leading "
            "dash, nested dirs) in 60% of runs; after EVERY git command every note reachable from refs/notes/ai is checked: "
            "one note per object and one tree path per object, parses under an independent Standard-v3 parser, lists only "
            "paths of its commit, 1-based lines within the blob's line count, sorted non-overlapping ranges, every hash has a "
            "prompt record, base_commit_sha = annotated commit, no human entry. distinct = digest of family x op sequence x "
            "names; non-trivial = a note with attestations was validated")
    assumptions = ["the two-level fan-out size class (a pre-built ref of 70 001 synthetic notes) is drawn in 1 of 40 quick runs / 1 of 25 thorough runs; there the Ledger is checked through blame as well",
                   "a tracked file literally named '---' is finding divider_path"]
    expected_probes = ["notes_checked", "ai_lines_observed", "hazard.names", "size_class.two_level"]

    def draw_hazards(self, rng, tier):
        hz = {}
        if rng.random() < 0.6:
            hz["names"] = True
        if rng.random() < 0.3:
            hz["indent"] = True
        return hz

    def header(self, rng, tier, index):
        h = super().header(rng, tier, index)
        # notes-ref size class: a pre-existing ref of ~70 k notes makes git lay the tree out two levels deep
        if index % (40 if tier == "quick" else 25) == 7:
            h["cfg"]["size_class"] = "two_level"
            h["cfg"]["families"] = [rng.choice(["rebase", "rebase_onto", "cherry_pick", "commits", "amend", "fastpath"])]
            h["cfg"]["hazards"] = {}
        return h

    def ops(self, rng, ex, cfg):
        from . import c15  # registers the fastpath family
        if cfg.get("size_class") == "two_level":
            ex.probe("size_class.two_level")
            yield {"op": "bulk_notes", "n": 70001, "tag": 1, "dt": 1000}
        yield from super().ops(rng, ex, cfg)

    def before_op(self, ex, i, op, cfg):
        pass

    def final(self, ex, cfg):
        # in the large-ref class every AI line must also still be found by blame (notes readable through
        # both the single and the batched readers)
        if cfg.get("size_class") == "two_level":
            from .c01 import check_blame
            from ..engine import in_progress
            repo = ex.repos["r0"]
            if not in_progress(ex.w, repo):
                v = check_blame(ex, repo, ex.sessions, one_sided=False)
                if v:
                    v["class"] = "two_level_" + v["class"]
                    return v
        return None

    def make_exec(self, root, trace):
        ex = C02.make_exec(self, root, trace)
        ex.w.extra_env["GIT_AI_VERIF_TRACE"] = os.path.join(ex.w.root, "verif.trace")
        return ex

    def monitor(self, ex, i, op, res, cfg):
        if cfg.get("hazards", {}).get("names"):
            ex.probe("hazard.names")
        if op["op"] == "ci_run" and "ci" in ex.repos:
            # the CI rewrite writes notes in the CI clone and pushes them: both places are held to the invariant
            ex.probe("ci.checked")
            for name, repo in (("ci", ex.repos["ci"]), ("remote", ex.w.root + "/remote.git")):
                v = check_all_notes(ex, repo, ex.gen_state.setdefault("note_cache_" + name, {}))
                if v:
                    v["detail"]["repository"] = name
                    return v
            return None
        if op["op"] not in ("git", "gitai"):
            return None
        repo = ex.repo(op)
        # did this command copy notes through the shortcut (reach probe of hook H7)?  the listed replay-path defect
        # (rebase_note_lines_beyond_file) cannot be what a shortcut-written note suffers from
        taken = False
        tp = os.path.join(ex.w.root, "verif.trace")
        try:
            with open(tp) as f:
                taken = any("\tprobe\tfastpath." in ln and ln.rstrip().endswith(".taken") for ln in f)
            os.remove(tp)
        except OSError:
            pass
        if taken:
            ex.probe("fastpath.taken")
        v = check_all_notes(ex, repo, ex.gen_state.setdefault("note_cache", {}))
        if v:
            v["detail"]["shortcut_taken"] = taken
        return v



PROP = C05()
