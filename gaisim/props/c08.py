"""C08 — transcripts and secrets never enter the shared notes unless the user opted in."""
import fnmatch

from .c02 import C02
from . import c09, c15  # register families
from ..engine import in_progress

# tokens the shipped entropy heuristic masks on the pinned tree (checked once against the real binary;
# the oracle therefore never asks for more than the heuristic promises)
VETTED = ["AUa00Zt2x7mrKBkxh3BqJOlNJlwV9UfHVALGkjnU", "em1vubDvb9GSVAaa8Q3kXLlsgPAg4RKlVyo9HMT6",
          "0vZcoh3FnVZWJQlqLBH69ickt31aj9owIvkyuadd", "TCfyZ6lYaXTxnRGWhENdaOFuXN9A78JmxXQShJjf",
          "Fk59vonkksjIfHSajaQF4l1M7Z2gqGWzeYW9DAlp", "64lbxvlzllKR0H5p9AGSAuhePDVmONKmViH5ovKs",
          "iIGSXQ5ZdqXBcxZHIKgOWejx4TOcrVCRxztCNqtV", "FEdqCbowi6aROZ7fbhM3m3zFlrwn5tUu2yeNtxY3",
          "cAmkfj0tovBmajh8GcYvzu3cpgFjLnqKIwkVsc23", "fgHnJGQ9AHaXHjLIuLWY5kDACbxQb3ywR0IQMbuE"]

CONFIGS = [
    # (config_extra, remotes, expected effective mode)
    ({"prompt_storage": "default"}, [], "default"),
    ({"prompt_storage": "default"}, [("origin", "https://example.invalid/acme/app.git")], "default"),
    ({"prompt_storage": "local"}, [], "local"),
    # a custom API base URL switches the CAS path of the default mode on (transcripts are queued in git-ai's local
    # database for upload and replaced by a URL in the note); the upload worker itself is off in the simulation
    ({"prompt_storage": "default", "api_base_url": "https://cas.example.invalid"}, [], "default"),
    ({"prompt_storage": "default", "api_base_url": "https://cas.example.invalid"}, [("origin", "https://example.invalid/acme/app.git")], "default"),
    ({"prompt_storage": "notes"}, [], "notes"),
    ({"prompt_storage": "notes"}, [("origin", "https://example.invalid/acme/app.git")], "notes"),
    ({"prompt_storage": "notes", "exclude_prompts_in_repositories": ["*acme/*"]},
     [("origin", "https://example.invalid/acme/app.git")], "local"),
    ({"prompt_storage": "notes", "exclude_prompts_in_repositories": ["*acme-corp/*"]},
     [("origin", "https://example.invalid/dev/billing.git"), ("upstream", "https://example.invalid/acme-corp/billing.git")], "local"),
    ({"prompt_storage": "notes", "exclude_prompts_in_repositories": ["*other/*"]},
     [("origin", "https://example.invalid/acme/app.git")], "notes"),
    ({"prompt_storage": "notes", "include_prompts_in_repositories": ["*acme/*"]},
     [("origin", "https://example.invalid/dev/app.git")], "local"),
    ({"prompt_storage": "notes", "include_prompts_in_repositories": ["*acme/*"]},
     [("origin", "https://example.invalid/acme/app.git")], "notes"),
    ({"prompt_storage": "default", "include_prompts_in_repositories": ["*acme/*"], "default_prompt_storage": "notes"},
     [("origin", "https://example.invalid/dev/app.git")], "notes"),
    ({"prompt_storage": "notes", "include_prompts_in_repositories": ["*acme/*"], "default_prompt_storage": "default"},
     [("origin", "https://example.invalid/dev/app.git")], "default"),
    ({"prompt_storage": "notes", "include_prompts_in_repositories": ["*acme/*"],
      "exclude_prompts_in_repositories": ["*acme/secret*"]},
     [("origin", "https://example.invalid/acme/secret-app.git")], "local"),
    # the remote is configured through a url.<base>.insteadOf shorthand: what counts is the URL git really uses
    ({"prompt_storage": "notes", "exclude_prompts_in_repositories": ["*example.invalid/acme/*"],
      "_insteadof": ["ex:", "https://example.invalid/"]},
     [("origin", "ex:acme/app.git")], "local"),
    ({"prompt_storage": "notes", "include_prompts_in_repositories": ["*example.invalid/acme/*"],
      "_insteadof": ["ex:", "https://example.invalid/"]},
     [("origin", "ex:acme/app.git")], "notes"),
]


def effective_mode(cfg, remotes):
    """independent model of the documented precedence: exclusion, then include list, then fallback"""
    urls = [u for _n, u in remotes]
    if cfg.get("_insteadof"):
        short, base = cfg["_insteadof"]
        urls = [base + u[len(short):] if u.startswith(short) else u for u in urls]
    for pat in cfg.get("exclude_prompts_in_repositories") or []:
        if any(fnmatch.fnmatchcase(u, pat) for u in urls) or (not urls and pat == "*"):
            return "local"
    inc = cfg.get("include_prompts_in_repositories") or []
    if not inc:
        return cfg.get("prompt_storage", "default")
    if any(fnmatch.fnmatchcase(u, pat) for u in urls for pat in inc) or (not urls and "*" in inc):
        return cfg.get("prompt_storage", "default")
    return cfg.get("default_prompt_storage") or "local"


def reachable_note_blobs(w, repo, seen):
    r = w.raw_git(repo, "rev-list", "--objects", "refs/notes/ai")
    if r.code != 0:
        return {}
    ids = [ln.split(" ")[0] for ln in r.out.splitlines() if ln and ln.split(" ")[0] not in seen]
    if not ids:
        return {}
    r = w.raw_git(repo, "cat-file", "--batch-check", stdin=("\n".join(ids) + "\n").encode())
    out = {}
    for ln in r.out.splitlines():
        parts = ln.split(" ")
        if len(parts) == 3:
            seen.add(parts[0])
            if parts[1] == "blob":
                out[parts[0]] = w.raw_git(repo, "cat-file", "-p", parts[0]).out
    return out


class C08(C02):
    id = "C08"
    families = ["commits", "partial", "partial", "amend", "amend", "rebase", "rebase_i", "fastpath", "cherry_pick",
                "squash_merge", "reset_recommit", "stash", "switch_carry", "ci_rewrite", "ci_rewrite", "pull",
                "partial_amend", "partial_amend"]
    remote_families = ("ci_rewrite", "pull")
    quick_runs, thorough_runs = 400, 6000
    quick_budget_s, thorough_budget_s = 170, 1800
    rule = ("one run = one history family (every note-writing path: commit, partial commit incl. commits that contain no "
            "AI line while a session is pending, amend with and without new AI work, rebase slow and fast path, rebase "
            "-i, cherry-pick, merge --squash + commit, reset + re-commit, stash/pop + commit, amend after a partial commit, pull, "
            "the CI rewrite) under one of 15 prompt-storage configurations (default / local / notes x include / exclude lists "
            "x 0..2 remotes x default_prompt_storage x remotes named through url.<base>.insteadOf); "
            "every AI checkpoint carries an inline transcript with a unique canary, in some runs also a credential-like "
            "token from a pool the shipped heuristic masks; after every git command every blob reachable from every "
            "commit of refs/notes/ai is scanned: no canary unless the effective mode (computed by an independent model "
            "of the documented precedence) is notes, and never an unmasked vetted token. distinct = digest of family x "
            "ops x configuration; non-trivial = a note with a prompt record was scanned")
    assumptions = ["two agent kinds: inline transcript (agent-v1) and a Claude-Code-style transcript file that git-ai "
                   "re-fetches at commit time (claude preset, PreToolUse/PostToolUse hooks)", "the user is not logged in; the CAS path of the default mode is reached through a custom api_base_url (two of the "
                   "17 configurations): transcripts are queued in git-ai's own sqlite database, the upload worker is off; in those runs one commit "
                   "runs while that database is write-locked by another process (fault db.busy: the queue insert fails)"]
    expected_probes = ["scan.blobs", "scan.prompt_record_seen", "mode.default", "mode.local", "mode.notes", "fault.db_busy",
                       "canary.allowed_and_present", "family.amend", "family.partial", "family.fastpath", "agent.claude", "agent.inline"]

    def draw_hazards(self, rng, tier):
        return {}

    def header(self, rng, tier, index):
        h = super().header(rng, tier, index)
        cfg_extra, remotes, expect = CONFIGS[index % len(CONFIGS)]
        if any(f in self.remote_families for f in h["cfg"]["families"]):
            # these families bring their own (real, local) remote: only the configurations without remotes
            free = [c for c in CONFIGS if not c[1]]
            cfg_extra, remotes, expect = free[index % len(free)]
        assert effective_mode(cfg_extra, remotes) == expect
        h["world"]["prompt_storage"] = cfg_extra.get("prompt_storage", "default")
        h["world"]["config_extra"] = {k: v for k, v in cfg_extra.items() if k != "prompt_storage" and not k.startswith("_")}
        if cfg_extra.get("_insteadof"):
            short, base = cfg_extra["_insteadof"]
            h["world"]["gitconfig"] = [['url "%s"' % base, "insteadOf", short]]
        h["cfg"]["remotes"] = [list(r) for r in remotes]
        h["cfg"]["effective"] = expect
        h["cfg"]["tokens"] = rng.random() < 0.6
        h["cfg"]["run_tag"] = "%06x" % rng.getrandbits(24)
        # agent kind: inline transcript (agent-v1) or a transcript file that git-ai re-fetches (claude)
        h["cfg"]["agent_kind"] = "claude" if rng.random() < 0.4 else "agent-v1"
        return h

    def after_init(self, ex, cfg):
        for name, url in cfg.get("remotes") or []:
            ex.w.raw_git(ex.repos["r0"], "remote", "add", name, url)

    def before_op(self, ex, i, op, cfg):
        pass

    def ops(self, rng, ex, cfg):
        n = 0
        n_busy = 0
        for op in super().ops(rng, ex, cfg):
            if op["op"] == "edit" and op["who"] != "human":
                n += 1
                canary = "CNRY%sx%d" % (cfg["run_tag"], n)
                text = "please change the file, ref %s" % canary
                if cfg.get("tokens") and rng.random() < 0.6:
                    tok = rng.choice(VETTED)
                    text += " using token %s ok" % tok
                    if rng.random() < 0.5:
                        # the same credential a second time in the same message (the export line and the command using it)
                        text += " then run curl -H 'Authorization: Bearer %s' and a second one %s end" % (tok, rng.choice(VETTED))
                        ex.probe("token.repeated")
                op["transcript"] = [{"type": "user", "text": text},
                                    {"type": "assistant", "text": "done %s-reply" % canary}]
                if cfg.get("agent_kind") == "claude":
                    op["agent"] = "claude"
                    ex.probe("agent.claude")
                else:
                    ex.probe("agent.inline")
                ex.gen_state.setdefault("canaries", []).append(canary)
            if op["op"] == "git" and op["argv"][:1] == ["commit"] and bool((ex.trace.get("world", {}).get("config_extra") or {}).get("api_base_url")) and n_busy < 1 and rng.random() < 0.3:
                # the queue insert fails for this commit (database locked by another git-ai process)
                op["db_busy"] = True
                n_busy += 1
                ex.probe("fault.db_busy")
            yield op

    def monitor(self, ex, i, op, res, cfg):
        if op["op"] == "ci_run" and "ci" in ex.repos:
            ex.probe("ci.checked")
            for repo in (ex.repos["ci"], ex.w.root + "/remote.git"):
                v = self.scan(ex, i, op, cfg, repo)
                if v:
                    return v
            return None
        if op["op"] not in ("git", "edit"):
            return None
        return self.scan(ex, i, op, cfg, ex.repo(op))

    def scan(self, ex, i, op, cfg, repo):
        mode = cfg.get("effective")
        if i == 0:
            ex.probe("mode." + mode)
        seen = ex.gen_state.setdefault("seen_blobs", set())
        blobs = reachable_note_blobs(ex.w, repo, seen)
        for oid, text in sorted(blobs.items()):
            ex.probe("scan.blobs")
            if '"agent_id"' in text:
                ex.probe("scan.prompt_record_seen")
                ex.probe("ai_lines_observed")
            if "CNRY" in text:
                if mode != "notes":
                    k = text.index("CNRY")
                    return {"monitor": "notes.scan", "class": "transcript_in_notes_in_%s_mode" % mode,
                            "detail": {"blob": oid, "after": op.get("argv") or op["op"], "excerpt": text[max(0, k - 60):k + 80]}}
                ex.probe("canary.allowed_and_present")
            for tok in VETTED:
                if tok in text:
                    k = text.index(tok)
                    return {"monitor": "notes.scan", "class": "unmasked_secret_in_notes",
                            "detail": {"blob": oid, "mode": mode, "after": op.get("argv") or op["op"],
                                       "excerpt": text[max(0, k - 40):k + 60]}}
        return None

    def final(self, ex, cfg):
        return None

    def nontrivial(self, ex, cfg):
        return bool(ex.probes.get("scan.prompt_record_seen"))


PROP = C08()
