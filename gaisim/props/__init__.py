import importlib

_cache = {}


def get_prop(pid):
    if pid not in _cache:
        mod = importlib.import_module("gaisim.props.%s" % pid.lower())
        _cache[pid] = mod.PROP
    return _cache[pid]
