"""C12 — results do not depend on the user's git configuration or invocation context."""
from .c01 import check_blame
from .c02 import C02
from . import c09  # registers the renames family
from .. import hist
from ..engine import in_progress
from ..pair import PairExec, compare_pair

KNOBS = [
    ("diff", "noprefix", "true"), ("diff", "mnemonicPrefix", "true"), ("diff", "srcPrefix", "x/"),
    ("diff", "dstPrefix", "y/"), ("color", "ui", "always"), ("color", "diff", "always"), ("diff", "renames", "copies"), ("diff", "renames", "false"), ("diff", "renames", "false"), ("diff", "renames", "true"),
    ("diff", "renameLimit", "1"),
    ("diff", "algorithm", "histogram"), ("diff", "algorithm", "patience"), ("diff", "algorithm", "minimal"),
    ("diff", "context", "0"), ("diff", "context", "12"), ("diff", "interHunkContext", "6"),
    ("diff", "indentHeuristic", "false"), ("core", "quotePath", "false"), ("core", "pager", "cat"),
    ("blame", "showEmail", "true"), ("blame", "date", "relative"), ("blame", "coloring", "highlightRecent"),
    ("blame", "markIgnoredLines", "true"), ("blame", "markUnblamableLines", "true"),
    ("notes", "displayRef", "refs/notes/ai"), ("status", "short", "true"), ("status", "branch", "true"),
    ("diff", "external", "{ROOT}/extdiff.sh"), ("diff \"upper\"", "textconv", "{ROOT}/textconv.sh"),
    ("diff", "wsErrorHighlight", "all"), ("diff", "colorMoved", "zebra"), ("diff", "relative", "true"),
    ("diff", "statGraphWidth", "5"), ("log", "decorate", "full"), ("diff", "submodule", "log"),
    ("core", "whitespace", "trailing-space,space-before-tab"), ("diff", "suppressBlankEmpty", "true"),
]
GIT_ENVS = [{"GIT_EXTERNAL_DIFF": "{ROOT}/extdiff.sh"}, {"GIT_DIFF_OPTS": "-u9"}, {"GIT_PAGER": "cat"}, {"PAGER": "cat"},
            {"GIT_DIFF_OPTS": "--unified=0"}]

EXTDIFF = "#!/bin/sh\necho \"EXTERNAL DIFF for $1\"\nexit 0\n"
TEXTCONV = "#!/bin/sh\ntr 'a-z' 'A-Z' < \"$1\"\n"


class C12(C02):
    id = "C12"
    families = ["commits", "partial", "amend", "rebase", "rebase_i", "cherry_pick", "squash_merge", "reset_recommit",
                "stash", "switch_carry", "renames", "renames", "pull", "switch_merge", "reset_pathspec", "stash_pathspec"]
    quick_runs, thorough_runs = 300, 5000
    quick_budget_s, thorough_budget_s = 170, 1800
    rule = ("one run = one history family executed twice from identical worlds: baseline, and with a drawn subset (1..6) of "
            "git configuration knobs (diff prefixes / noprefix / mnemonic, external diff via config and GIT_EXTERNAL_DIFF, "
            "textconv driver through .gitattributes, color.ui/diff always, diff.renames=copies, three diff algorithms, "
            "diff.context, interHunkContext, indentHeuristic, relative, colorMoved, wsErrorHighlight, core.quotePath, "
            "core.pager / GIT_PAGER / PAGER, GIT_DIFF_OPTS, blame.* display settings, notes.displayRef, status.short/branch, "
            "log.decorate) and an invocation context (repository root, a subdirectory, another directory with -C, -C through a symlinked spelling of the path); parsed "
            "notes of corresponding commits (ids coincide), blame --json of every file and stats --json must be equal. distinct = digest of family x ops x knob set; non-trivial = AI "
            "line observed")
    assumptions = ["only settings under which plain git keeps working are drawn", "settings that change what git does "
                   "(autocrlf, notes.rewriteRef, rebase.*, merge.*) are outside the property's list"]
    expected_probes = ["ai_lines_observed", "ctx.subdir", "ctx.dash_C", "ctx.symlink_C", "knob.diff.external", "knob.color.ui", "locale"]

    def make_exec(self, root, trace):
        ex = PairExec(root, trace)
        for e in (ex, ex.b):
            for name, body in (("extdiff.sh", EXTDIFF), ("textconv.sh", TEXTCONV)):
                p = __import__("os").path.join(e.w.root, name)
                with open(p, "w") as f:
                    f.write(body)
                __import__("os").chmod(p, 0o755)
        return ex

    def draw_hazards(self, rng, tier):
        return {"names": True} if rng.random() < 0.35 else {}

    def header(self, rng, tier, index):
        h = super().header(rng, tier, index)
        knobs = rng.sample(KNOBS, rng.randint(1, 6))
        if h["cfg"]["families"][0] == "renames" and rng.random() < 0.6 and ("diff", "renames", "false") not in knobs:
            knobs.append(("diff", "renames", "false"))     # rename detection off vs. the default (on)
        ctx = rng.choice([None, "subdir", "dash_C", "dash_C", "symlink_C"])
        env = rng.choice(GIT_ENVS) if rng.random() < 0.4 else {}
        if h["cfg"]["families"][0] == "stash_pathspec" and env.get("GIT_DIFF_OPTS") == "--unified=0":
            # plain git itself cannot `stash push -- <path>` with zero-context diffs (its internal diff | apply -R
            # fails: "patch does not apply"); only settings under which git keeps working are part of the claimed space
            env = {}
        h["variant"] = {"world": {"gitconfig": [list(k) for k in knobs]}, "context": ctx, "git_env": env, "subdir": "src"}
        if rng.random() < 0.2:
            # the user's locale: every message git prints (also to git-ai's internal calls) comes out translated
            h["variant"]["env"] = {"LC_ALL": "", "LANG": "C.UTF-8", "LANGUAGE": rng.choice(["de", "fr", "ja"])}
        h["init"]["files"]["src/keep.txt"] = "L0 keep this directory\n"
        if h["cfg"]["hazards"].get("names"):
            # names that git prints quoted under every core.quotePath setting, with and without raw UTF-8 inside
            special = rng.choice(["caf\u00e9\"q.txt", "\u65e5\u672c \"x\".txt", "tab\there \u00fc.txt"])
            h["init"]["files"][special] = "L%d special name line\nL%d special name line\n" % (h["next_id"], h["next_id"] + 1)
            h["next_id"] += 2
            if rng.random() < 0.5 and ["core", "quotePath", "false"] not in h["variant"]["world"]["gitconfig"]:
                h["variant"]["world"]["gitconfig"].append(["core", "quotePath", "false"])
        h["init"]["attributes"] = {".gitattributes": "*.txt diff=upper\n*.md diff=upper\n"}
        return h

    def before_op(self, ex, i, op, cfg):
        pass

    def monitor(self, ex, i, op, res, cfg):
        if i == 0:
            v = ex.variant
            if v.get("context"):
                ex.probe("ctx." + v["context"])
            if (v.get("env") or {}).get("LANGUAGE"):
                ex.probe("locale")
            for k in v.get("world", {}).get("gitconfig", []):
                ex.probe("knob.%s.%s" % (k[0].split(" ")[0], k[1]))
        if op["op"] != "git" or not (op.get("check") or op.get("rewrite")):
            return None
        if in_progress(ex.w, ex.repos["r0"]):
            return None
        rb = res.get("b") or {}
        if res.get("code") != rb.get("code"):
            return {"monitor": "pair.sync", "class": "command_outcome_differs",
                    "detail": {"argv": op["argv"], "a": res.get("code"), "b": rb.get("code"), "err_b": (rb.get("err") or "")[-300:]}}
        return compare_pair(ex, what=("notes", "blame", "stats"))

    def final(self, ex, cfg):
        return None


PROP = C12()
