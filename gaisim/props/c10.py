"""C10 — notes converge across clones and are never lost by sync."""
import json
import os
import random

from .base import Prop
from ..engine import Exec
from ..ledger import HUMAN
from ..oracle import Notes
from ..sched import run_concurrent
from .. import noteparse


def note_map(w, repo):
    n = Notes(w, repo)
    out = {}
    for c in n.commits():
        p = n.parsed(c)
        if isinstance(p, noteparse.NoteError):
            out[c] = "ERR:" + str(p)
        elif p is not None:
            out[c] = json.dumps(noteparse.canonical(p)["files"], sort_keys=True)
    return out


class C10(Prop):
    id = "C10"
    level = "exploration"
    quick_runs, thorough_runs = 300, 5000
    quick_budget_s, thorough_budget_s = 170, 1800
    rule = ("one run = a bare remote seeded with plain git + 2..3 clones made through the wrapper (some cloned before "
            "the remote has any notes ref) + 8..16 steps drawn per clone from {AI commit on the shared branch or on an own "
            "branch, push in eight spellings (-u, --force-with-lease[=..], --no-verify HEAD:b, --receive-pack .., no arguments, "
            "options last), fetch, pull (merge / --rebase)}, in 30% of the runs a foreign-note episode (the author publishes a "
            "commit with a git that is not the wrapper, somebody else writes a different well-formed note for it on the remote, "
            "the author syncs: an add/add conflict in the notes ref), with network faults: a window in which "
            "every internal git call naming the remote fails for one clone (partition, then heal), and the wrapper killed "
            "at a drawn internal call of a push or fetch; and concurrent episodes: two or three clones run push / fetch / pull / "
            "pull --rebase AT THE SAME TIME under the seeded controller (internal git calls and notes threads interleaved, the "
            "schedule is part of the trace), after which every participant has to push and fetch again sequentially before "
            "convergence is demanded of it. Safety after every step: every note any repository holds for a "
            "commit equals the note its author's clone wrote (a sync never replaces or deletes a note). Convergence: "
            "whenever every clone has successfully pushed since its last commit and then fetched (forced once at the end "
            "after faults stop, pushing only clones that have not pushed yet), the remote and every clone hold the owner's "
            "note for every commit they have. distinct = digest of the step sequence; non-trivial = notes from two clones "
            "met on the remote")
    assumptions = ["outside the concurrent episodes steps are whole commands; inside an episode (40% of the runs, at most two per "
                   "run) the sync commands of 2-3 clones run at the same time and the controller interleaves their internal git "
                   "calls and those of each command's notes thread; a real git subprocess is atomic for the scheduler",
                   "notes for commits a repository does not have are allowed"]
    expected_probes = ["step.commit", "step.push", "step.fetch", "step.pull", "fault.net_down", "fault.kill", "fault.step_fail", "fault.step_kill", "converged.checked",
                       "first_sync_without_notes_ref", "notes_from_two_clones", "foreign_note.written", "step.concurrent",
                       "conc.interleaved", "conc.thread_scheduled"]

    def header(self, rng, tier, index):
        # deployment mode: the wrapper, or (one run in five) plain git with git-ai's managed hooks in every clone
        # (hooks mode is NOT drawn: a first try showed that plain `git fetch` syncs no notes there - no hook fires for a
        # fetch - so "everyone pushed and then fetched" does not converge; multi-clone sync in hooks mode would need
        # its own oracle and triage (DESIGN §0.4, "not built").  GAISIM_C10_HOOKS=1 switches it on for surveys.)
        mode = "hooks" if (rng.random() < 0.2 and os.environ.get("GAISIM_C10_HOOKS")) else "wrapper"
        return {"world": {"mode": mode, "use_simgit": True}, "sessions": ["sa", "sb", "sc"],
                "cfg": {"n_clones": rng.choice([2, 2, 3]), "dead_remote": rng.choice([None, None, None, "backup", "zz-mirror"]),
                        # the user's locale: git's own messages come out translated (git-ai's internal calls inherit it)
                        "locale": rng.choice([None, None, None, "de", "fr"]), "steps": rng.randint(8, 16 if tier == "quick" else 28),
                        "early_clone": rng.random() < 0.6, "faults": rng.random() < 0.5,
                        "foreign": rng.randint(5, 9) if rng.random() < 0.3 else 0,
                        "conc": rng.random() < 0.4},
                "init": {"files": {}}, "next_id": 100}

    # ------------------------------------------------------------------ world
    def after_init(self, ex, cfg):
        w = ex.w
        if cfg.get("locale"):
            w.extra_env.update({"LC_ALL": "", "LANG": "C.UTF-8", "LANGUAGE": cfg["locale"]})
            ex.probe("locale." + cfg["locale"])
        remote = os.path.join(w.root, "remote.git")
        os.makedirs(remote)
        w.raw_git(remote, "init", "-q", "--bare", "-b", "main")
        seed = os.path.join(w.root, "seed")
        os.makedirs(seed)
        w.raw_git(seed, "init", "-q", "-b", "main")
        for i in range(3):
            w.write(seed, "f%d.txt" % i, "L%d base\nL%d base\n" % (ex.fresh_id(), ex.fresh_id()))
        w.raw_git(seed, "add", "-A")
        w.raw_git(seed, "commit", "-q", "-m", "seed")
        w.raw_git(seed, "push", "-q", remote, "main")
        ex.repos["remote"] = remote
        ex.gen_state.update(owner={}, pushed={}, fetched_after={}, epoch=0)

    def ops(self, rng, ex, cfg):
        names = ["a", "b", "c"][:cfg["n_clones"]]
        st = ex.gen_state
        cloned = []

        def clone_op(n):
            cloned.append(n)
            return {"op": "clone", "name": n, "dt": 2000}
        # some clones are made while the remote has no notes ref (first-sync case)
        if cfg["early_clone"]:
            for n in names:
                yield clone_op(n)
        else:
            yield clone_op(names[0])
        fault_at = rng.randint(2, cfg["steps"] - 2) if cfg["faults"] else -1
        n_conc = 0
        for step in range(cfg["steps"]):
            for n in names:
                if n not in cloned and rng.random() < 0.5:
                    yield clone_op(n)
            n = rng.choice(cloned)
            kind = rng.choice(["commit", "commit", "push", "push", "fetch", "pull", "pull_rebase"])
            env = None
            if rng.random() < 0.12:
                # repository maintenance in one clone (or on the server): refs get packed, objects repacked
                yield {"op": "sync", "kind": "pack", "clone": rng.choice(cloned + ["remote"]), "dt": 3000,
                       "argv": rng.choice([["pack-refs", "--all"], ["gc", "-q"], ["pack-refs", "--all"]])}
            if step == fault_at:
                fk = rng.choice(["net_down", "net_down", "kill", "kill", "step_fail", "step_fail", "step_kill"])
                if fk == "net_down":
                    env = {"SIMGIT_NETDOWN": "remote.git"}
                    ex.probe("fault.net_down")
                elif fk == "kill":
                    env = {"SIMGIT_PLAN": "%d=kill" % rng.randint(3, 40), "SIMGIT_STATE": "{ROOT}/simgit.state"}
                    ex.probe("fault.kill")
                else:
                    # one named step of the notes sync fails (a lock file left by another process, a full disk, a hook
                    # that rejects) or the wrapper dies right there: fetch into the tracking ref / merge into the local
                    # ref / notes push / the existence checks in between
                    words = rng.choice(["notes,merge", "notes,merge", "fetch,--no-tags", "push,--no-verify", "show-ref", "ls-remote",
                                        "update-ref", "notes,merge"])
                    verdict = "kill" if fk == "step_kill" else rng.choice(["fail:1", "fail:128"])
                    env = {"SIMGIT_MATCH": "%s=%s" % (words, verdict)}
                    ex.probe("fault." + fk)
                    ex.probe("fault.step." + words.replace(",", "_"))
                    # the fault is only worth something while the two sides have diverged: the clone commits first and
                    # somebody else publishes in between
                    other = rng.choice([c for c in cloned if c != n] or [n])
                    for nn in (n, other):
                        yield {"op": "sync", "kind": "commit", "clone": nn, "file": "f%d.txt" % rng.randint(0, 2),
                               "own_branch": True, "session": "s" + nn, "lines": rng.randint(1, 3), "dt": 3000}
                    if other != n:
                        yield {"op": "sync", "kind": "push", "clone": other, "dt": 3000, "form": 0}
                kind = rng.choice(["push", "fetch", "pull"])
            if cfg.get("foreign") and step == cfg["foreign"] and kind != "commit":
                # somebody else (another tool version, a re-run CI job) overwrites one note on the remote with a
                # different, well-formed one; the author's clone then syncs: its own note must survive untouched
                # (the author published the commit with a git that is not the wrapper, so its note is still local only)
                n2 = rng.choice(cloned)
                yield {"op": "sync", "kind": "commit", "clone": n2, "file": "f%d.txt" % rng.randint(0, 2),
                       "own_branch": True, "session": "s" + n2, "lines": rng.randint(2, 3), "dt": 3000}
                yield {"op": "sync", "kind": "plain_push", "clone": n2, "dt": 3000}
                yield {"op": "sync", "kind": "foreign_note", "clone": n2, "dt": 3000}
                yield {"op": "sync", "kind": rng.choice(["fetch", "pull", "push"]), "clone": n2, "dt": 3000, "form": 0}
                continue
            if cfg.get("conc") and len(cloned) >= 2 and env is None and step >= 2 and n_conc < 2 and rng.random() < 0.25:
                n_conc += 1
                # a concurrent episode: two or three clones run a sync command AT THE SAME TIME; the controller
                # interleaves their internal git calls (and the calls of each command's notes thread)
                who = rng.sample(cloned, min(len(cloned), rng.choice([2, 2, 3])))
                for n2 in who:
                    if rng.random() < 0.7:
                        yield {"op": "sync", "kind": "commit", "clone": n2, "file": "f%d.txt" % rng.randint(0, 2),
                               "own_branch": rng.random() < 0.6, "session": "s" + n2, "lines": rng.randint(1, 3), "dt": 3000}
                parts = [{"clone": n2, "cmd": rng.choice(["push", "push", "push", "fetch", "pull", "pull_rebase"]),
                          "form": rng.choice([0, 0, 1, 3])} for n2 in who]
                yield {"op": "sync", "kind": "concurrent", "parts": parts, "dt": 3000,
                       "policy": rng.choice(["random", "random", "pct"]), "sched_seed": rng.getrandbits(32)}
                continue
            if kind == "commit":
                own_branch = rng.random() < 0.4
                yield {"op": "sync", "kind": "commit", "clone": n, "file": "f%d.txt" % rng.randint(0, 2),
                       "own_branch": own_branch, "session": "s" + n, "lines": rng.randint(1, 3), "dt": 3000}
            elif kind == "push":
                # the spellings people use to (re-)publish a branch; git resolves the same remote for all of them
                yield {"op": "sync", "kind": kind, "clone": n, "env": env, "dt": 3000, "form": rng.randint(0, 7)}
            else:
                yield {"op": "sync", "kind": kind, "clone": n, "env": env, "dt": 3000}
        # faults have stopped: every clone that has not pushed since its last commit pushes, then everyone fetches
        for n in cloned:
            yield {"op": "sync", "kind": "final_push", "clone": n, "dt": 3000}
        for n in cloned:
            yield {"op": "sync", "kind": "fetch", "clone": n, "dt": 3000, "final": True}
        yield {"op": "sync", "kind": "converge_check", "dt": 1}

    # ------------------------------------------------------------------ executing the sync ops
    def apply_sync(self, ex, op):
        w = ex.w
        st = ex.gen_state
        w.tick(op.get("dt", 1000))
        kind = op["op"] if op["op"] == "clone" else op["kind"]
        ex.op_counts[kind] = ex.op_counts.get(kind, 0) + 1
        remote = ex.repos["remote"]
        env = {k: v.replace("{ROOT}", w.root) for k, v in (op.get("env") or {}).items()} or None
        if env and "SIMGIT_STATE" in env:
            try:
                os.remove(env["SIMGIT_STATE"])
            except OSError:
                pass
        if kind == "clone":
            n = op["name"]
            dst = os.path.join(w.root, n)
            if not w.notes_list(remote):
                ex.probe("first_sync_without_notes_ref")
            r = w.git(w.root, "clone", "-q", remote, dst)
            if w.mode == "hooks" and os.path.isdir(dst):
                w.ensure_hooks(dst)
                ex.probe("mode.hooks")
            dead = (ex.trace.get("cfg") or {}).get("dead_remote")
            if dead and os.path.isdir(dst) and n != "a":
                # a second remote that does not answer (an old mirror, a host that is down); its name sorts before or
                # after 'origin'
                w.raw_git(dst, "remote", "add", dead, "../nowhere-%s.git" % dead)
                ex.probe("dead_remote")
            ex.repos[n] = dst
            st["pushed"][n] = True
            st["fetched_after"][n] = st["epoch"]
            return {"code": r.code, "err": r.err}
        if kind == "converge_check":
            return {"code": 0}
        if kind == "foreign_note":
            return self.foreign_note(ex, op["clone"])
        if kind == "concurrent":
            return self.concurrent(ex, op)
        if kind == "pack":
            repo = ex.repos[op["clone"]]
            r = w.raw_git(repo, *op["argv"]) if op["clone"] == "remote" else w.git(repo, *op["argv"])
            ex.probe("step.pack")
            return {"code": r.code, "err": r.err}
        if kind == "plain_push":
            repo = ex.repos[op["clone"]]
            branch = w.raw_git(repo, "rev-parse", "--abbrev-ref", "HEAD").out.strip()
            r = w.raw_git(repo, "-c", "core.hooksPath=/dev/null", "push", "-q", "-u", "origin", branch)
            return {"code": r.code, "err": r.err}
        n = op["clone"]
        repo = ex.repos[n]
        if kind == "commit":
            branch = w.raw_git(repo, "rev-parse", "--abbrev-ref", "HEAD").out.strip()
            if op.get("own_branch") and branch == "main":
                w.git(repo, "checkout", "-q", "-b", "feat-" + n)
            f = op["file"]
            old = w.read(repo, f) or ""
            new = old + "".join("L%d %s ai line\n" % (ex.fresh_id(), op["session"]) for _ in range(op["lines"]))
            w.ckpt_human(repo, [f])
            w.write(repo, f, new)
            ex.ledger.edit(old, new, op["session"])
            w.tick(5)
            w.ckpt_ai(repo, [f], op["session"])
            w.tick(1000)
            w.git(repo, "add", "-A")
            r = w.git(repo, "commit", "-q", "-m", "%s work %d" % (n, ex.fresh_id()))
            st["pushed"][n] = False
            ex.probe("step.commit")
            return {"code": r.code, "err": r.err}
        if kind in ("push", "final_push"):
            if kind == "final_push" and st["pushed"].get(n):
                return {"code": 0, "skipped": True}
            branch = w.raw_git(repo, "rev-parse", "--abbrev-ref", "HEAD").out.strip()
            form = op.get("form", 0) if kind == "push" else 0
            has_upstream = w.raw_git(repo, "rev-parse", "--abbrev-ref", "--symbolic-full-name", "@{u}").code == 0
            argv = {0: ["push", "-q", "-u", "origin", branch],
                    1: ["push", "-q", "origin", branch],
                    2: ["push", "-q", "--force-with-lease", "origin", branch],
                    3: ["push", "-q", "--no-verify", "origin", "HEAD:" + branch],
                    4: ["push", "-q", "--receive-pack", "git-receive-pack", "origin", branch],
                    5: ["push", "-q"] if has_upstream else ["push", "-q", "-u", "origin", branch],
                    6: ["push", "-q", "--force-with-lease=" + branch, "origin", branch],
                    7: ["push", "-q", "origin", branch, "--force-with-lease"]}[form]
            ex.probe("push.form%d" % form)
            r = w.git(repo, *argv, env=env)
            if r.code == 0 and not env:
                st["pushed"][n] = True
                st["epoch"] += 1
            ex.probe("step.push")
            return {"code": r.code, "err": r.err}
        if kind == "fetch":
            r = w.git(repo, "fetch", "-q", "origin", env=env)
            if r.code == 0 and not env:
                st["fetched_after"][n] = st["epoch"]
            ex.probe("step.fetch")
            return {"code": r.code, "err": r.err}
        if kind in ("pull", "pull_rebase"):
            args = ["pull", "-q", "--no-edit"] + (["--rebase"] if kind == "pull_rebase" else ["--no-rebase"]) + ["origin", "main"]
            r = w.git(repo, *args, env=env)
            from ..engine import in_progress
            st_ = in_progress(w, repo)
            if st_ == "rebase":
                w.git(repo, "rebase", "--abort")
            elif st_ == "merge":
                w.git(repo, "merge", "--abort")
            if r.code == 0 and not env:
                st["fetched_after"][n] = st["epoch"]
            if kind == "pull_rebase" or r.code == 0:
                st["pushed"][n] = st["pushed"].get(n, True) and kind != "pull_rebase"
            ex.probe("step.pull")
            return {"code": r.code, "err": r.err}
        raise ValueError(kind)

    def concurrent(self, ex, op):
        """several clones sync at the same time: real processes parked at every internal git call (and every call of
        their notes threads) and released one at a time by the seeded controller; the schedule is stored in the op"""
        w = ex.w
        st = ex.gen_state
        gitw = os.path.join(w.bin, "git")
        cmds = []
        for part in op["parts"]:
            n = part["clone"]
            repo = ex.repos[n]
            branch = w.raw_git(repo, "rev-parse", "--abbrev-ref", "HEAD").out.strip()
            cmd = part["cmd"]
            if cmd == "push":
                argv = {0: ["push", "-q", "-u", "origin", branch], 1: ["push", "-q", "origin", branch],
                        3: ["push", "-q", "--no-verify", "origin", "HEAD:" + branch]}[part.get("form", 0)]
            elif cmd == "fetch":
                argv = ["fetch", "-q", "origin"]
            else:
                argv = ["pull", "-q", "--no-edit"] + (["--rebase"] if cmd == "pull_rebase" else ["--no-rebase"]) + ["origin", "main"]
            from ..world import REAL_GIT
            cmds.append((n, [gitw if w.mode in ("wrapper", "both") else REAL_GIT] + argv, repo,
                         {} if w.mode in ("wrapper", "both") else {"GIT_AI_GLOBAL_GIT_HOOKS": "true"}))
        replaying = op.get("schedule") is not None
        run = run_concurrent(w, cmds, rng=None if replaying else random.Random(op["sched_seed"]),
                             choices=op.get("schedule") if replaying else None, policy=op.get("policy", "random"))
        op["schedule"] = run["schedule"]
        seq = [l for l, _p in run["schedule"]]
        if sum(1 for a, b in zip(seq, seq[1:]) if a != b) >= 2:
            ex.probe("conc.interleaved")
        ex.probe("step.concurrent")
        if run["stats"]["thread_spawn"]:
            ex.probe("conc.thread_scheduled")
        if run["stats"]["blocked_fallback"]:
            ex.probe("conc.blocked_fallback")
        from ..engine import in_progress
        for part in op["parts"]:
            n = part["clone"]
            repo = ex.repos[n]
            st_ = in_progress(w, repo)
            if st_ == "rebase":
                w.git(repo, "rebase", "--abort")
            elif st_ == "merge":
                w.git(repo, "merge", "--abort")
            # whatever this command achieved while racing, the clone has to push and fetch again, sequentially,
            # before convergence is demanded of it
            st["pushed"][n] = False
            st["fetched_after"][n] = -1
        if run["stalled"]:
            w.hang = True
        return {"code": 0, "codes": {l: r["code"] for l, r in sorted(run["results"].items())}}

    def foreign_note(self, ex, owner):
        """somebody else writes, on the remote, a (different, well-formed) note for a commit whose author has
        published the commit but not yet its note"""
        w = ex.w
        st = ex.gen_state
        remote = ex.repos["remote"]
        repo = ex.repos[owner]
        fc = os.path.join(w.root, "foreign-clone")
        if not os.path.isdir(fc):
            w.raw_git(w.root, "clone", "-q", remote, fc)
        w.raw_git(fc, "fetch", "-q", "origin", "+refs/heads/*:refs/remotes/origin/*")
        w.raw_git(fc, "fetch", "-q", "origin", "+refs/notes/ai:refs/notes/ai")
        rm = note_map(w, remote)
        have = set(w.raw_git(remote, "rev-list", "--all").out.split())
        mine = note_map(w, repo)
        cands = sorted(c for c in mine if c in have and c not in rm and mine[c] != "{}" and st["owner"].get(c, ("",))[0] == owner
                       and c not in st.setdefault("contested", {}))
        for c in cands:
            raw = w.raw_git(repo, "notes", "--ref=ai", "show", c).out
            lines = raw.split("\n")
            try:
                div = lines.index("---")
            except ValueError:
                continue
            idx = [i for i in range(div) if lines[i].startswith("  ")]
            if not idx:
                continue
            i = idx[-1]
            head, _, ranges = lines[i].rpartition(" ")
            items = ranges.split(",")
            last = items[-1]
            if "-" in last:
                a, b = last.split("-")
                items[-1] = a if int(b) - 1 <= int(a) else "%s-%d" % (a, int(b) - 1)
            elif len(items) > 1:
                items.pop()
            else:
                continue
            lines[i] = head + " " + ",".join(items)
            r = w.raw_git(fc, "notes", "--ref=ai", "add", "-f", "-F", "-", c, stdin="\n".join(lines).encode())
            r2 = w.raw_git(fc, "push", "-q", "origin", "refs/notes/ai:refs/notes/ai")
            if r.code == 0 and r2.code == 0:
                st["contested"][c] = owner
                ex.probe("foreign_note.written")
                return {"code": 0, "commit": c}
        return {"code": 0, "skipped": True}

    # ------------------------------------------------------------------ oracle
    def check(self, ex, op, final):
        w = ex.w
        st = ex.gen_state
        owner = st["owner"]
        repos = {k: v for k, v in ex.repos.items() if k != "r0"}
        maps = {k: note_map(w, v) for k, v in repos.items()}
        # record the owner's note for commits seen for the first time in their author's clone
        actor = op.get("clone") or op.get("name")
        if actor in maps:
            for c, note in maps[actor].items():
                owner.setdefault(c, (actor, note))
        for part in op.get("parts") or []:
            # (a pull --rebase inside a concurrent episode creates rewritten commits with notes of their own)
            for c, note in maps.get(part["clone"], {}).items():
                owner.setdefault(c, (part["clone"], note))
        contested = st.get("contested", {})
        for k in sorted(maps):
            for c, note in maps[k].items():
                if c in contested and k != contested[c]:
                    continue        # a foreign writer replaced this note on the remote: only the author's clone is held to it
                if c in owner and owner[c][1] != note and json.loads(owner[c][1] if owner[c][1].startswith("{") else "{}"):
                    return {"monitor": "sync.safety", "class": "note_replaced_by_sync",
                            "detail": {"repo": k, "commit": c, "owner": owner[c][0], "owner_note": owner[c][1][:200],
                                       "now": str(note)[:200], "after": op.get("kind") or op["op"]}}
        rm = maps.get("remote", {})
        if len({owner[c][0] for c in rm if c in owner}) >= 2:
            ex.probe("notes_from_two_clones")
        clones = sorted(k for k in repos if k != "remote")
        all_pushed = all(st["pushed"].get(n) for n in clones)
        all_fetched = all(st["fetched_after"].get(n, -1) >= st["epoch"] for n in clones)
        if final or (all_pushed and all_fetched and clones):
            ex.probe("converged.checked")
            for k in ["remote"] + clones:
                have = set(w.raw_git(repos[k], "rev-list", "--all").out.split())
                for c, (who, note) in sorted(owner.items()):
                    if c in contested and k != contested[c]:
                        continue
                    if c in have and note != "{}" and maps[k].get(c) != note:
                        return {"monitor": "sync.convergence", "class": "note_missing_after_everyone_pushed_and_fetched",
                                "detail": {"repo": k, "commit": c, "owner": who, "expected": note[:200],
                                           "found": str(maps[k].get(c))[:200], "pushed": st["pushed"], "final": final}}
        return None

    # ------------------------------------------------------------------ drivers (custom op kinds)
    def _drive(self, ex, trace, op_source):
        cfg = trace.get("cfg", {})
        ex.init()
        self.after_init(ex, cfg)
        viol = None
        i = 0
        for op in op_source:
            res = self.apply_sync(ex, op)
            if ex.w.hang:
                viol = {"monitor": "watchdog", "class": "hang", "detail": {"op": op}}
            else:
                viol = self.check(ex, op, final=(op.get("kind") == "converge_check"))
            if viol:
                viol["step"] = i
                break
            i += 1
        return viol

    def sample(self, trace):
        return {"cfg": trace.get("cfg"), "steps": ["%s:%s" % (o.get("clone") or o.get("name") or
                                                              "+".join("%s.%s" % (p["clone"], p["cmd"]) for p in o.get("parts", [])),
                                                              o.get("kind") or o["op"])
                                                   + ("!" if o.get("env") else "") for o in trace["ops"]]}

    def abstract(self, ex, trace):
        import hashlib
        return hashlib.sha256(json.dumps(self.sample(trace), sort_keys=True).encode()).hexdigest()[:16]

    def nontrivial(self, ex, cfg):
        return bool(ex.probes.get("notes_from_two_clones"))

    def trace_valid(self, trace):
        ops = trace["ops"]
        names = set()
        for o in ops:
            if o["op"] == "clone":
                names.add(o["name"])
            elif o.get("clone") and o["clone"] not in names and o["clone"] != "remote":
                return False
            elif any(p["clone"] not in names for p in o.get("parts") or []):
                return False
        return bool(ops) and ops[-1].get("kind") == "converge_check"


PROP = C10()
