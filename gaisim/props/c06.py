"""C06 — running git through git-ai is indistinguishable from running git (lock-step twin)."""
import json

import os
from .base import Prop
from .c02 import HistoryProp
from .. import gen, hist
from ..twin import TwinExec, diff_states, observable_state

ALIASES = {"ci": "commit", "st": "status -s", "lg": "log --oneline", "c2": "ci", "co": "checkout",
           "sh": "!git status -s", "amend": "commit --amend --no-edit", "qs": "-c core.abbrev=9 status -s",
           # quoting: git does not treat a backslash inside single quotes as an escape
           "fmt": "log --format='%s\\t%an' -3", "gr": "grep -c -e 'L[0-9]\\+ ' -- .", "dq": "log --format=\"%h\\\\%s\" -2",
           "cm": "commit --allow-empty -q -m 'C:\\tmp\\notes and \\n text'", "sp": "log  --oneline   -2",
           # the real git dies by a signal (killed from inside a shell alias): the wait status must be mirrored as is
           "diekill": "!kill -KILL $PPID", "dieterm": "!kill -TERM $PPID", "diepipe": "!kill -PIPE $PPID",
           "diehup": "!kill -HUP $PPID", "exit3": "!exit 3", "exit200": "!exit 200"}

READ_ONLY = [
    ["status", "--porcelain"], ["status", "-s", "-b"], ["--no-pager", "log", "--oneline", "-5"],
    ["log", "--format=%H %s", "-3", "--", "."], ["-c", "core.abbrev=8", "log", "-1", "--format=%h"],
    ["--git-dir=.git", "--work-tree=.", "status", "-s"], ["--git-dir", ".git", "rev-parse", "HEAD"],
    ["-C", ".", "rev-parse", "--abbrev-ref", "HEAD"], ["rev-parse", "HEAD"], ["cat-file", "-p", "HEAD"],
    ["ls-tree", "-r", "HEAD"], ["diff", "--stat"], ["diff", "--cached", "--name-only"], ["show", "--stat", "--format=%s", "HEAD"],
    ["branch", "-a"], ["branch", "--show-current"], ["for-each-ref", "refs/heads"], ["stash", "list"],
    ["st"], ["lg", "-3"], ["sh"], ["qs"], ["fmt"], ["gr"], ["dq"], ["sp"], ["fmt"], ["gr"], ["frobnicate"], ["commit", "--no-such-flag"], ["--version"], ["version"],
    ["log", "--no-such-option"], ["-c"], ["--no-such-global", "status"], ["ls-files", "-s"], ["ls-files", "--", "."],
    ["diff", "HEAD", "--", "."], ["blame", "--porcelain", "HEAD", "--", "{FILE}"], ["shortlog", "-s", "HEAD"], ["describe", "--always"],
    ["config", "--get", "user.name"], ["show-ref", "--heads"], ["reflog", "-3", "--format=%gs"],
    ["rev-list", "--count", "HEAD"], ["merge-base", "HEAD", "HEAD"], ["check-ignore", "-q", "x"], ["grep", "-c", "L1", "--", "."],
    ["--no-pager", "-c", "color.ui=never", "diff", "--name-status", "HEAD~1"], ["notes", "list"],
    ["log", "-1", "--format=%H", "--", "nonexistent"], ["-p", "log", "-1", "--format=%s"], ["--paginate", "status", "-s"],
    ["diekill"], ["dieterm"], ["diepipe"], ["diehup"], ["exit3"], ["exit200"],
]
MUTATING = [
    ["tag", "t{N}"], ["branch", "b{N}"], ["cm"], ["cm"], ["tag", "-d", "t{N}"], ["ci", "--allow-empty", "-m", "empty{N}"],
    ["commit", "--allow-empty", "-q", "-m", "e{N}"], ["mv", "{FILE}", "{FILE}.moved"], ["rm", "-q", "--cached", "{FILE}"],
    ["revert", "--no-edit", "HEAD"], ["add", "-N", "."], ["reset", "-q"], ["update-index", "--refresh"],
    ["checkout", "-q", "--detach"], ["checkout", "-q", "-"], ["notes", "add", "-f", "-m", "user note", "HEAD"],
    ["config", "core.abbrev", "10"], ["amend"], ["clean", "-n"], ["worktree", "list"],
    ["fsck", "--no-dangling", "--no-progress"],
]


def compare(ex, op, res, i):
    rb = res.get("b") or {}
    if op["op"] in ("git",):
        if res.get("code") != rb.get("code"):
            return {"monitor": "twin.exit", "class": "exit_status_differs",
                    "detail": {"argv": op.get("argv"), "plain": res.get("code"), "gitai": rb.get("code"),
                               "gitai_err": (rb.get("err") or "")[-400:], "plain_err": (res.get("err") or "")[-200:]}}
        oa, ob = ex.norm_out(res.get("out", ""), "a"), ex.norm_out(rb.get("out", ""), "b")
        if oa != ob:
            return {"monitor": "twin.stdout", "class": "stdout_differs",
                    "detail": {"argv": op.get("argv"), "plain": oa[-400:], "gitai": ob[-400:]}}
    sa = observable_state(ex.w, ex.repos["r0"])
    sb = observable_state(ex.b.w, ex.b.repos["r0"])
    d = diff_states(sa, sb)
    if d:
        return {"monitor": "twin.state", "class": "state_differs_" + "_".join(d),
                "detail": {"argv": op.get("argv") or op["op"],
                           "diff": {k: [str(sa[k])[:300], str(sb[k])[:300]] for k in d}}}
    return None


class C06(HistoryProp):
    id = "C06"
    level = "exploration"
    quick_runs, thorough_runs = 400, 8000
    quick_budget_s, thorough_budget_s = 170, 1800
    families = [f for f in hist.FAMILIES if f not in ("destructive", "human_overwrites_ai", "ci_rewrite")] + ["destructive"]
    rule = ("one run = the same concrete op list executed in lock step in a plain-git world and a wrapper world "
            "(identical user hooks in both; in a quarter of the runs the git-ai world is the wrapper in a repository that ALSO "
            "has the managed hooks installed, user hooks in a core.hooksPath directory): one history family (commits, rebase forms, cherry-pick, amend, merge, "
            "squash, reset, stash, switch, destructive commands, partial commits) interleaved with command lines from a "
            "grammar over global options (-C, -c, --git-dir/--work-tree, --no-pager, -p), aliases (plain, chained, "
            "shell), plumbing, invalid commands and options, tag/branch/mv/rm/revert/gc/notes; after every command exit "
            "status (raw wait status: aliases whose shell kills git with KILL/TERM/PIPE/HUP or exits 3/200), stdout, HEAD, refs "
            "outside refs/notes/ai*, index, work-tree bytes, stash, in-progress state incl. FETCH_HEAD and the "
            "user-hook log must be equal. distinct = digest of the command sequence; non-trivial = at least one hooked "
            "command (commit/rebase/...) ran with AI state present")
    assumptions = ["ref/object census commands (for-each-ref without pattern, count-objects, gc, pack-refs --all) are not generated or only in forms that do not touch the AI notes namespaces",
                   "stderr is not compared (the property speaks of stdout and exit status)"]
    expected_probes = ["extra.read_only", "extra.mutating", "ai_edits"]

    def make_exec(self, root, trace):
        return TwinExec(root, trace)

    def header(self, rng, tier, index):
        h = super().header(rng, tier, index)
        h["cfg"]["aliases"] = ALIASES
        h["cfg"]["user_hooks"] = True
        h["cfg"]["extra_p"] = rng.choice([0.2, 0.4, 0.6])
        # (gc / pack-refs run one ref transaction over ALL refs, the notes namespaces included: a census command in the
        # sense of the oracle restriction stated in DESIGN §4 C06, so the maintenance steps are not drawn here)
        h["cfg"]["maintenance"] = False
        if rng.random() < 0.25 or os.environ.get("GAISIM_C06_BOTH"):
            # the wrapper in a repository that ALSO has git-ai's managed hooks installed: the proxied git is
            # pointed at the user's own hooks directory (they still run, once; the managed ones do not run twice)
            h["world"]["mode"] = "both"
        return h

    def ops(self, rng, ex, cfg):
        n = [0]

        def extra():
            n[0] += 1
            pool = READ_ONLY if rng.random() < 0.7 else MUTATING
            ex.probe("extra.read_only" if pool is READ_ONLY else "extra.mutating")
            argv = list(rng.choice(pool))
            files = ex.w.tracked_files(ex.repos["r0"])
            f = rng.choice(files) if files else "a.txt"
            argv = [a.replace("{FILE}", f).replace("{N}", str(n[0] % 3)) for a in argv]
            return {"op": "git", "argv": argv, "dt": 1000 + rng.randint(0, 5000), "extra": True}
        for op in super().ops(rng, ex, cfg):
            if op["op"] == "edit" and op["who"] != "human":
                ex.probe("ai_edits")
            yield op
            from ..engine import in_progress
            while rng.random() < cfg.get("extra_p", 0.3) and not in_progress(ex.w, ex.repos["r0"]):
                yield extra()

    def before_op(self, ex, i, op, cfg):
        pass

    def monitor(self, ex, i, op, res, cfg):
        return compare(ex, op, res, i)

    def final(self, ex, cfg):
        return None

    def nontrivial(self, ex, cfg):
        return bool(ex.probes.get("ai_edits"))


PROP = C06()
