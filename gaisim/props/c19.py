"""C19 — commit statistics add up and agree with the note and the diff."""
import json

from .c01 import added_lines
from .c02 import C02
from .. import hist, noteparse
from ..engine import in_progress
from ..oracle import Notes

IGNORED_NAMES = ["Cargo.lock", "yarn.lock", "web/package-lock.json", "dist/app.min.js", "dist/app.js.map",
                 "gen/api.generated.ts"]


def is_ignored(path):
    base = path.split("/")[-1]
    return base.endswith(".lock") or base == "package-lock.json" or base.endswith(".min.js") or \
        base.endswith(".map") or ".generated." in base


def fam_override_pressure(g):
    """several sessions each write a block; a person tweaks one line of every block (an override counted for that
    session's prompt); then a small commit takes only an unrelated file: the note carries the pending sessions'
    prompt records, whose overridden-line counts together exceed what the commit has room for"""
    rng = g.rng
    from .. import gen
    files = g.worktree_files()
    while len(files) < 3:
        yield g.human_edit(new_file=True)
        yield from g.commit_all()
        files = g.worktree_files()
    rng.shuffle(files)
    sessions = list(g.ex.sessions)
    for s, f in zip(sessions, files[:len(sessions)]):
        yield g.edit(s, path=f, kinds=["insert", "append"], max_block=4)
        yield g.edit("human", path=f, kinds=["modify", "modify_part"], pos="inside_ai", max_block=rng.randint(1, 2), pre_ckpt=True)
    small = "small/s%d.txt" % g.ex.fresh_id()
    yield g.edit(rng.choice(sessions), path=small, new_file=False, kinds=["insert"]) if False else \
        {"op": "edit", "who": rng.choice(sessions), "files": {small: gen.join_lines([gen.new_line(rng, g.ex) for _ in range(rng.randint(1, 2))])},
         "dt": g.dt(), "dt2": 30, "desc": {"kind": "insert", "pos": "any", "who": "ai"}}
    if rng.random() < 0.7:
        old = g.w.read(g.repo, small) or ""
        yield {"op": "edit", "who": "human", "files": {small: old + gen.new_line(rng, g.ex) + "\n"}, "dt": g.dt(),
               "pre_ckpt": True, "desc": {"kind": "append", "pos": "bottom", "who": "human"}}
    g.ex.probe("stats.override_pressure")
    yield g.git("add", "--", small)
    yield g.git("commit", "-q", "-m", g.msg(), check=True)
    yield from g.commit_all()


def fam_stats_mix(g):
    rng = g.rng
    if len(g.ex.sessions) >= 2 and rng.random() < 0.25:
        yield from fam_override_pressure(g)
        return
    for _ in range(rng.randint(1, 3)):
        yield from g.some_edits(n_ai=(1, 3), n_human=(0, 2))
        if rng.random() < 0.6:
            name = rng.choice(IGNORED_NAMES)
            who = g.pick_session() if rng.random() < 0.6 else "human"
            old = g.w.read(g.repo, name)
            from .. import gen
            new, desc = gen.mutate(rng, g.ex, old, who, {}, kinds=["insert", "append"] if old is None else None)
            g.ex.probe("stats.ignored_file")
            yield {"op": "edit", "who": who, "files": {name: new}, "desc": desc, "dt": g.dt(), "dt2": 50,
                   "pre_ckpt": True}
        if rng.random() < 0.25:
            g.ex.probe("stats.binary_file")
            yield {"op": "write_raw", "path": "img%d.bin" % rng.randint(0, 2),
                   "content": "\x00\x01\x02BIN" + "".join(chr(rng.randint(1, 120)) for _ in range(40)), "dt": g.dt()}
        yield from g.commit_all()


hist.FAMILIES.setdefault("stats_mix", fam_stats_mix)


def check_stats(ex, repo, commit, notes, extra_ignore=None):
    w = ex.w
    global is_ignored
    base_ignored = is_ignored
    if extra_ignore:
        is_ignored = lambda p: base_ignored(p) or p == extra_ignore
        try:
            return _check_stats(ex, repo, commit, notes, ["--ignore", extra_ignore])
        finally:
            is_ignored = base_ignored
    v = _check_stats(ex, repo, commit, notes, [])
    if v:
        return v
    # the same identities with one more file ignored at stats time
    parsed = notes.parsed(commit)
    if parsed and not isinstance(parsed, noteparse.NoteError):
        cands = sorted(p for p in parsed["files"] if not base_ignored(p) and " " not in p and not p.startswith("-"))
        if cands:
            ex.probe("stats.ignore_option")
            return check_stats(ex, repo, commit, notes, extra_ignore=cands[0])
    return None


def _check_stats(ex, repo, commit, notes, extra_args):
    w = ex.w
    r = w.gitai(repo, "stats", commit, "--json", *extra_args)
    if r.code != 0:
        return {"monitor": "stats.identities", "class": "stats_failed", "detail": {"commit": commit, "err": r.err[-300:]}}
    try:
        st = json.loads(r.out[r.out.index("{"):])
    except ValueError:
        return {"monitor": "stats.identities", "class": "stats_not_json", "detail": {"commit": commit, "out": r.out[-300:]}}
    parents = w.raw_git(repo, "rev-list", "--parents", "-n", "1", commit).out.split()[1:]
    if len(parents) > 1:
        ex.probe("stats.merge_commit")
    # 1. numstat (minus ignored files)
    ns = w.raw_git(repo, "show", "--numstat", "--format=", "--no-renames", "-z", commit)
    add = dele = 0
    per_file_added = {}
    for rec in ns.out.split("\0"):
        parts = rec.strip("\n").split("\t")
        if len(parts) == 3 and parts[0].isdigit():
            if is_ignored(parts[2]):
                continue
            add += int(parts[0])
            dele += int(parts[1])
            per_file_added[parts[2]] = int(parts[0])
    detail = {"commit": commit, "stats": {k: v for k, v in st.items() if k != "tool_model_breakdown"}}
    if len(parents) <= 1:
        if st.get("git_diff_added_lines") != add or st.get("git_diff_deleted_lines") != dele:
            detail["numstat"] = [add, dele]
            return {"monitor": "stats.identities", "class": "diff_totals_differ_from_numstat", "detail": detail}
    # 2. accepted = lines the commit added that its note attributes to AI
    parsed = notes.parsed(commit)
    accepted = 0
    if parsed and not isinstance(parsed, noteparse.NoteError) and len(parents) <= 1:
        parent = parents[0] if parents else None
        for path in parsed["files"]:
            if is_ignored(path):
                continue
            al = added_lines(w, repo, parent, commit, path)
            accepted += len(set(noteparse.line_map(parsed, path)) & al)
        if st.get("ai_accepted") != accepted:
            detail["accepted_from_note_and_diff"] = accepted
            return {"monitor": "stats.identities", "class": "accepted_differs_from_note", "detail": detail}
        if accepted:
            ex.probe("ai_lines_observed")
    A = st.get("git_diff_added_lines", 0)
    # 3. human + accepted = added
    if len(parents) <= 1 and st.get("human_additions", 0) + st.get("ai_accepted", 0) != A:
        return {"monitor": "stats.identities", "class": "human_plus_accepted_not_added", "detail": detail}
    # 4. ai_additions = accepted + mixed, <= added
    if st.get("ai_additions", 0) != st.get("ai_accepted", 0) + st.get("mixed_additions", 0):
        return {"monitor": "stats.identities", "class": "ai_additions_not_accepted_plus_mixed", "detail": detail}
    if len(parents) <= 1 and st.get("ai_additions", 0) > A:
        return {"monitor": "stats.identities", "class": "ai_additions_exceed_added", "detail": detail}
    # 5. breakdown sums
    bd = st.get("tool_model_breakdown") or {}
    if extra_args:
        detail["ignore_option"] = extra_args[1]
        if "stats_ignore_breakdown" in (ex.trace.get("cfg", {}).get("gates") or []):
            bd = {}       # known finding: the per-tool breakdown does not honour --ignore
            ex.probe("stats.breakdown_skipped_known")
    for key in ("ai_additions", "mixed_additions", "ai_accepted", "total_ai_additions", "total_ai_deletions"):
        s = sum(v.get(key, 0) for v in bd.values())
        if bd and s != st.get(key, 0):
            detail["breakdown_sum"] = {key: s}
            return {"monitor": "stats.identities", "class": "breakdown_does_not_sum_" + key, "detail": detail}
    ex.probe("stats.checked")
    if len(bd) > 1:
        ex.probe("stats.multi_tool")
    return None


class C19(C02):
    id = "C19"
    families = ["stats_mix", "stats_mix", "commits", "partial", "amend", "merge", "rebase", "cherry_pick", "squash_merge"]
    quick_runs, thorough_runs = 1000, 10000
    quick_budget_s, thorough_budget_s = 170, 1800
    rule = ("[stats_mix includes an override-pressure variant: several sessions, one human-tweaked line each, then a small "
            "unrelated partial commit] "
            "one run = one history family (incl. stats_mix: AI and human edits to ordinary files, to ignored files "
            "(*.lock, package-lock.json, *.min.js, *.map, *.generated.*) and binary files, several sessions and models); for "
            "EVERY commit created, root and merge commits included, git-ai stats <sha> --json is checked against "
            "git show --numstat (minus ignored files), the independently parsed note intersected with the hunk-aware added "
            "lines, and the five identities of the statement incl. the per-tool breakdown sums. distinct = digest of family x "
            "ops; non-trivial = a commit with accepted AI lines was checked")
    assumptions = ["merge commits: only the internal identities (4, 5) are checked, their numstat is empty by definition"]
    expected_probes = ["stats.checked", "ai_lines_observed", "stats.ignored_file", "stats.binary_file", "stats.merge_commit",
                       "stats.multi_tool"]

    def draw_hazards(self, rng, tier):
        return {}

    def header(self, rng, tier, index):
        h = super().header(rng, tier, index)
        h["cfg"]["models"] = rng.random() < 0.5
        return h

    def before_op(self, ex, i, op, cfg):
        pass

    def ops(self, rng, ex, cfg):
        for op in super().ops(rng, ex, cfg):
            if cfg.get("models") and op["op"] == "edit" and op["who"] != "human":
                op["model"] = "m%d" % (1 + ex.sessions.index(op["who"]) % 2) if op["who"] in ex.sessions else "m1"
                op["tool"] = "simagent"
            yield op

    def monitor(self, ex, i, op, res, cfg):
        if op["op"] != "git" or res.get("code") != 0:
            return None
        repo = ex.repo(op)
        if in_progress(ex.w, repo):
            return None
        seen = ex.gen_state.setdefault("stats_seen", set())
        r = ex.w.raw_git(repo, "rev-list", "--all", "--not", "--glob=refs/notes/*")
        commits = [c for c in r.out.split() if c not in seen]
        if not commits:
            return None
        notes = Notes(ex.w, repo)
        for c in commits[:6]:
            seen.add(c)
            v = check_stats(ex, repo, c, notes)
            if v:
                return v
        return None

    def final(self, ex, cfg):
        return None


PROP = C19()
