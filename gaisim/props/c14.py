"""C14 — attribution does not depend on how often or how finely checkpoints are taken."""
from .c02 import C02
from .. import hist
from ..engine import in_progress
from ..ledger import HUMAN
from ..pair import PairExec, compare_pair

# read-only commands, and commands that end without doing anything but make the wrapper take its implicit human
# checkpoint first (stash list / show run the stash pre-hook, a commit that is abandoned for its empty message or is a
# dry run has already run the pre-commit checkpoint)
NOOPS = [["status", "--porcelain"], ["log", "--oneline", "-3"], ["diff", "--stat"], ["rev-parse", "HEAD"],
         ["branch", "-a"], ["stash", "list"], ["ls-files"], ["show", "--stat", "--format=%s", "HEAD"],
         ["stash", "list"], ["stash", "show"], ["commit", "-q", "-a", "-m", ""], ["commit", "-q", "-m", ""],
         ["commit", "--dry-run", "-a"], ["stash", "list"]]


class C14(C02):
    id = "C14"
    families = ["commits", "commits", "partial", "amend", "stats_mix", "human_overwrites_ai", "human_overwrites_ai",
                "two_file_report", "two_file_report", "staged_mix", "staged_mix"]
    quick_runs, thorough_runs = 400, 6000
    quick_budget_s, thorough_budget_s = 170, 1800
    rule = ("one run = one commit-oriented history (plain commits, partial commits, amend) executed twice from identical "
            "worlds: as is, and with redundant events inserted at drawn places in the second world only - the same AI "
            "checkpoint delivered twice, one agent edit reported in two consecutive checkpoints of the same session "
            "(intermediate content = a subset of its hunks), an extra human checkpoint after a human edit, read-only git "
            "commands (status, log, diff --stat, rev-parse, branch, stash list / show, ls-files, show) and commits abandoned for an "
            "empty message or run with --dry-run (each takes the wrapper's implicit human checkpoint and changes nothing) through the wrapper; the "
            "attestation sections of corresponding notes and blame --json of every file must be equal. distinct = digest "
            "of family x ops x perturbation kinds; non-trivial = AI line observed and at least one perturbation applied")
    assumptions = ["prompt metrics (additions/deletions counters) are not compared"]
    expected_probes = ["ai_lines_observed", "perturb.dup", "perturb.split", "perturb.extra_human", "perturb.noop_cmd",
                       "perturb.crash_redeliver", "ckpt_crash.fired"]

    def make_exec(self, root, trace):
        return PairExec(root, trace)

    def header(self, rng, tier, index):
        from . import c19  # registers stats_mix
        h = super().header(rng, tier, index)
        h["variant"] = {}
        h["cfg"]["perturb_p"] = rng.choice([0.3, 0.5, 0.8])
        if h["cfg"]["families"][0] in ("commits", "stats_mix", "human_overwrites_ai", "two_file_report", "staged_mix") and rng.random() < 0.6:
            # people do not fire checkpoints: in the baseline world a human edit is only seen by the next AI report or
            # by the pre-commit checkpoint (safe here: these families leave nothing pending in INITIAL, so the
            # initial_positional finding cannot be met and its gate is lifted for the run)
            h["cfg"]["human_pre_ckpt"] = False
            h["cfg"]["gates"] = [x for x in h["cfg"]["gates"] if x != "initial_positional"]
        return h

    def draw_hazards(self, rng, tier):
        hz = {"indent": True} if rng.random() < 0.3 else {}
        if rng.random() < 0.35:
            hz["twins"] = True      # an agent writes two files with identical content (snapshots coincide)
        return hz

    def before_op(self, ex, i, op, cfg):
        pass

    def ops(self, rng, ex, cfg):
        p = cfg.get("perturb_p", 0.5)
        repo = ex.repos["r0"]
        for op in super().ops(rng, ex, cfg):
            before, after = [], []
            if op["op"] == "edit" and rng.random() < p:
                paths = sorted(op["files"])
                if op["who"] != HUMAN:
                    kind = rng.choice(["dup", "split", "dup", "crash", "crash"])
                    if kind == "crash" and (op.get("dirty") or op.get("agent")):
                        kind = "dup"
                    if kind == "crash":
                        # delivery fault: the process that takes the report dies at a journal / snapshot point, the
                        # agent reports again.  From here on the run is held to the one-sided oracle only (a crash may
                        # lose attribution, it must never invent any)
                        point = rng.choice(["ckpt.blob.write#1", "ckpt.blob.write#1", "ckpt.blob.write#2", "ckpt.run.after_read#1",
                                            "ckpt.append.before_read#1", "ckpt.append.before_write#1", "ckpt.write_all#1"])
                        op["b_crash"] = "%s=%s" % (point, rng.choice(["crash", "torn:37", "torn:300", "torn:5"]))
                        ex.gen_state["crash_used"] = True
                        ex.probe("perturb.crash_redeliver")
                    if kind == "split":
                        path = paths[0]
                        old = ex.w.read(repo, path)
                        new = op["files"][path]
                        if old is not None and new is not None:
                            a, b, hunks = hist.hunks_between(old, new)
                            if len(hunks) >= 2:
                                chosen = set(rng.sample(range(len(hunks)), rng.randint(1, len(hunks) - 1)))
                                mid = hist.apply_hunks(a, b, hunks, chosen)
                                before.append({"op": "edit", "who": op["who"], "files": {path: mid}, "dt2": 3})
                                ex.probe("perturb.split")
                            else:
                                kind = "dup"
                        else:
                            kind = "dup"
                    if kind == "dup":
                        after.append({"op": "ckpt", "who": op["who"], "paths": paths})
                        ex.probe("perturb.dup")
                else:
                    after.append({"op": "ckpt", "who": HUMAN, "paths": paths})
                    ex.probe("perturb.extra_human")
            if rng.random() < p * 0.6 and not in_progress(ex.w, repo):
                after.append({"op": "git", "argv": list(rng.choice(NOOPS))})
                ex.probe("perturb.noop_cmd")
            if before:
                op["b_before"] = before
            if after:
                op["b_after"] = after
            yield op

    def monitor(self, ex, i, op, res, cfg):
        if op["op"] != "git" or not (op.get("check") or op.get("rewrite")):
            return None
        if in_progress(ex.w, ex.repos["r0"]):
            return None
        if any(o.get("b_crash") for o in ex.trace.get("ops", [])[:i + 1]):
            from .c01 import check_blame
            v = check_blame(ex.b, ex.b.repos["r0"], ex.sessions, one_sided=True)
            if v:
                v["class"] = "after_crashed_report_" + v["class"]
            return v
        return compare_pair(ex, what=("notes", "blame"))

    def final(self, ex, cfg):
        return None

    def nontrivial(self, ex, cfg):
        return bool(ex.probes.get("ai_lines_observed")) and any(k.startswith("perturb.") for k in ex.probes)


PROP = C14()
