"""C04 — uncommitted AI work is carried to the commit that finally contains it, once."""
from .c01 import check_blame, check_commit_note
from .c02 import C02
from ..oracle import Notes
from .. import noteparse


class C04(C02):
    id = "C04"
    families = ["partial"]
    quick_runs, thorough_runs = 600, 10000
    quick_budget_s, thorough_budget_s = 170, 1800
    rule = ("one run = base commit + 2..6 AI/human edits over existing and new files, then 1..4 partial commits "
            "(by file with git add, by git commit -- path, by commit -a, by hunk subsets written to the index as add -p "
            "does), optionally with unrelated edits in between, then a commit of the rest. Oracle per commit: parsed "
            "note = exactly the Ledger-AI lines that commit added (hunk-aware diff); at every commit git-ai blame and "
            "the overlay = Ledger two-sided (an AI line recorded for the wrong commit or twice shows up as human/AI "
            "mismatch in blame). distinct = digest of op/edit/position sequence; non-trivial = AI line observed")
    assumptions = ["humans checkpoint before editing a file (the un-checkpointed edit is finding initial_positional)",
                   "agent protocol as in C01"]
    expected_probes = ["ai_lines_observed", "partial.files", "partial.commit_path", "partial.hunks", "partial.hunk_split",
                       "partial.commit_a"]

    def draw_hazards(self, rng, tier):
        return {}

    def monitor(self, ex, i, op, res, cfg):
        if op["op"] == "git" and op.get("check") and res.get("code") == 0:
            repo = ex.repo(op)
            notes = Notes(ex.w, repo)
            head = ex.w.head(repo)
            v = check_commit_note(ex, repo, head, ex.sessions, notes=notes)
            if v:
                return v
        return super().monitor(ex, i, op, res, cfg)


PROP = C04()
