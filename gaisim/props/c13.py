"""C13 — wrapper mode and git-hooks mode record the same authorship."""
from .c02 import C02
from . import c09  # registers the renames family
from ..engine import in_progress
from ..pair import PairExec, compare_pair


class C13(C02):
    id = "C13"
    families = ["commits", "partial", "amend", "rebase", "rebase_onto", "rebase_i", "rebase_stop", "cherry_pick",
                "squash_merge", "reset_recommit", "stash", "switch_carry", "merge", "pull", "switch_merge",
                "reset_pathspec", "stash_pathspec"]
    quick_runs, thorough_runs = 250, 4000
    quick_budget_s, thorough_budget_s = 170, 1800
    rule = ("one run = one history family executed in two worlds from the same op list: git-ai as git wrapper, and plain "
            "git with git-ai's managed repository hooks (git-hooks ensure); after every committing / rewriting command the "
            "parsed notes of corresponding commits (ids coincide) and blame --json of every file must be equal. distinct = "
            "digest of family x ops; non-trivial = AI line observed")
    assumptions = ["operations both modes support (commit, amend, rebase incl. interactive, cherry-pick, reset, stash, "
                   "merge --squash, checkout/switch)", "both worlds are separately held to the Ledger by C02 (wrapper) and "
                   "by this check's thorough tier (hooks)"]
    expected_probes = ["ai_lines_observed", "family.rebase_i", "family.stash", "family.amend"]

    def make_exec(self, root, trace):
        return PairExec(root, trace)

    def header(self, rng, tier, index):
        h = super().header(rng, tier, index)
        h["variant"] = {"world": {"mode": "hooks"}}
        return h

    def draw_hazards(self, rng, tier):
        return {}

    def before_op(self, ex, i, op, cfg):
        pass

    def monitor(self, ex, i, op, res, cfg):
        if op.get("relax"):
            ex.gen_state["relaxed"] = True     # a failed (conflicted) squash / pop finished by hand
        if ex.gen_state.get("relaxed"):
            return None
        if op["op"] != "git" or not (op.get("check") or op.get("rewrite")):
            return None
        if in_progress(ex.w, ex.repos["r0"]):
            return None
        rb = res.get("b") or {}
        if res.get("code") != rb.get("code"):
            return {"monitor": "pair.sync", "class": "command_outcome_differs",
                    "detail": {"argv": op["argv"], "a": res.get("code"), "b": rb.get("code"), "err_b": (rb.get("err") or "")[-300:]}}
        return compare_pair(ex, what=("notes", "blame"), strict_prompts=False)

    def final(self, ex, cfg):
        return None


PROP = C13()
