"""C11 — concurrent git-ai activity in one repository loses nothing.

Schedules of 2-3 concurrent commands on shared state, at journal-step and git-call granularity,
under the controller of sched.py.  Oracle: the outcome equals that of SOME sequential order of the
same commands, executed from a snapshot of the same world (the real system is its own sequential
model)."""
import itertools
import json
import os
import random

from .base import Prop
from ..engine import Exec, working_log_digest
from ..oracle import Notes
from ..sched import run_concurrent
from ..world import GITAI, session_hash

SCENARIOS = ["ckpt_distinct_files", "ckpt_distinct_files", "ckpt_same_file", "ckpt_vs_commit", "commits_two_worktrees",
             "rebase_vs_commit", "ckpt_three", "ckpt_after_head_moved", "first_sync_fetch_vs_commit", "first_sync_fetch_vs_commit",
             "ckpt_before_commit_runs"]


def ai_dirs(w, repo):
    base = w.ai_dir(repo)
    out = [base]
    wt = os.path.join(base, "worktrees")
    if os.path.isdir(wt):
        for d, dirs, files in os.walk(wt):
            if "working_logs" in dirs:
                out.append(d)
    return out


def journals(w, repo):
    res = {}
    for d in ai_dirs(w, repo):
        wl = os.path.join(d, "working_logs")
        if not os.path.isdir(wl):
            continue
        for base in sorted(os.listdir(wl)):
            if base.startswith("old-"):
                continue
            cp = os.path.join(wl, base, "checkpoints.jsonl")
            ents = []
            if os.path.isfile(cp):
                with open(cp, "rb") as f:
                    for ln in f.read().decode("utf-8", "replace").splitlines():
                        if not ln.strip():
                            continue
                        try:
                            j = json.loads(ln)
                            # "every reported edit is present": which sessions reported, not how the
                            # diff between two overlapping reports of the same file was split
                            ents.append([j.get("kind"), (j.get("agent_id") or {}).get("id")])
                        except ValueError:
                            ents.append(["MALFORMED"])
            key = os.path.relpath(d, w.ai_dir(repo)) + ":" + base
            res[key] = sorted(ents, key=json.dumps)
    return res


class C11(Prop):
    id = "C11"
    level = "exploration"
    quick_runs, thorough_runs = 160, 4000
    quick_budget_s, thorough_budget_s = 170, 1800
    rule = ("one run = a small world (repository with 3 files, optionally a linked worktree with its own branch) + 2..3 "
            "commands started concurrently and driven by the controller at every internal git call and every guarded "
            "journal point (checkpoint read / append read / append write / note write / rewrite-log read and write): "
            "parallel AI checkpoints of distinct sessions on distinct files or on one file, a checkpoint racing a wrapped "
            "commit, commits in two linked worktrees, a rebase (batch note writer) in one worktree racing a commit in "
            "another; scheduling policy drawn from uniform / PCT (<=3 priority changes) / stale-read bias. Oracle: the "
            "journals (multiset of checkpoints, every line parses), the notes and - after closing commits - blame of every "
            "file equal those of SOME sequential order of the same commands run from a snapshot of the same world; every "
            "command exits as it does sequentially; all parties finish within the step cap. distinct = the schedule "
            "projected on (party, point) names; non-trivial = at least two parties were interleaved")
    assumptions = ["a real git subprocess is atomic for the scheduler", "BLOCKING_MAX_THREADS=1 serialises git-ai's "
                   "internal worker pool (one schedulable thread per process)"]
    expected_probes = ["interleaved", "scenario.ckpt_distinct_files", "scenario.rebase_vs_commit", "scenario.ckpt_after_head_moved",
                       "scenario.first_sync_fetch_vs_commit", "scenario.ckpt_before_commit_runs", "point.ckpt.append.before_write",
                       "point.git:fast-import", "policy.pct", "policy.stale"]

    def header(self, rng, tier, index):
        scs = [s for s in SCENARIOS if not (s == "ckpt_vs_commit" and "checkpoint_races_commit" in self.gates())]
        sc = scs[index % len(scs)]
        return {"world": {"mode": "wrapper", "use_simgit": True}, "sessions": ["s1", "s2", "s3"],
                "cfg": {"scenario": sc, "policy": rng.choice(["random", "random", "pct", "stale"]),
                        "sched_seed": rng.getrandbits(32), "gates": self.gates()},
                "init": {"files": {"f1.txt": "L1 a\nL2 a\nL3 a\n", "f2.txt": "L4 b\nL5 b\n", "f3.txt": "L6 c\nL7 c\n"}},
                "next_id": 100, "ops": []}

    def gates(self):
        if os.environ.get("GAISIM_GATES") is not None:
            return [x for x in os.environ["GAISIM_GATES"].split(",") if x]
        from ..runner import load_known
        return sorted({kf["generator_gate"] for kf in load_known().get("findings", []) if kf.get("generator_gate")})

    # ------------------------------------------------------------------ scenario
    def build(self, ex, sc):
        """sequential setup; returns (commands, closing) where closing = list of (repo, argv)"""
        w = ex.w
        r0 = ex.repos["r0"]
        gitw = os.path.join(w.bin, "git")

        def ckpt(label, repo, files, session, off):
            payload = w.ai_payload(repo, files, session)
            return (label, [GITAI, "checkpoint", "agent-v1", "--hook-input", json.dumps(payload)], repo,
                    {"GIT_AI_VERIF_NOW_MS": str(w.now_ms + off)})

        def edit(repo, path, tag, n=2):
            old = w.read(repo, path) or ""
            new = old + "".join("L%d %s line\n" % (ex.fresh_id(), tag) for _ in range(n))
            w.write(repo, path, new)
            ex.ledger.edit(old, new, tag)

        closing = [(r0, ["add", "-A"]), (r0, ["commit", "-q", "-m", "closing"])]
        if sc in ("ckpt_distinct_files", "ckpt_three"):
            k = 3 if sc == "ckpt_three" else 2
            cmds = []
            w.ckpt_human(r0, ["f1.txt", "f2.txt", "f3.txt"])
            for i in range(k):
                edit(r0, "f%d.txt" % (i + 1), "s%d" % (i + 1))
                cmds.append(ckpt("p%d" % (i + 1), r0, ["f%d.txt" % (i + 1)], "s%d" % (i + 1), i))
            return cmds, closing
        if sc == "ckpt_same_file":
            w.ckpt_human(r0, ["f1.txt"])
            edit(r0, "f1.txt", "s1")
            edit(r0, "f1.txt", "s2")
            return [ckpt("p1", r0, ["f1.txt"], "s1", 0), ckpt("p2", r0, ["f1.txt"], "s2", 1)], closing
        if sc == "ckpt_after_head_moved":
            # a partial commit (AI lines of f2 stay pending, so post_commit writes INITIAL for the new HEAD) and another
            # agent's report on f3 that only starts once the commit's own git has moved HEAD: the report resolves the
            # NEW head and must survive the rest of post_commit
            w.ckpt_human(r0, ["f1.txt", "f2.txt", "f3.txt"])
            edit(r0, "f1.txt", "s1")
            edit(r0, "f2.txt", "s1")
            w.ckpt_ai(r0, ["f1.txt", "f2.txt"], "s1")
            w.raw_git(r0, "add", "f1.txt")
            edit(r0, "f3.txt", "s2")
            ex.gen_state["hold"] = {"p2": ("p1", ":proxied")}
            return [("p1", [gitw, "commit", "-q", "-m", "c1"], r0, {}), ckpt("p2", r0, ["f3.txt"], "s2", 1)], closing
        if sc == "ckpt_before_commit_runs":
            # a person commits their own (human-only) work while an agent reports an edit of another file; the report
            # may start anywhere but has completed before the commit's own git runs (the person was still typing the
            # message): post-commit must see it, whatever the pre-commit step concluded about the working log
            w.ckpt_human(r0, ["f1.txt", "f2.txt"])
            old = w.read(r0, "f1.txt") or ""
            w.write(r0, "f1.txt", old + "L%d typed by the person\n" % ex.fresh_id())
            ex.ledger.edit(old, w.read(r0, "f1.txt"), "human")
            w.raw_git(r0, "add", "f1.txt")
            edit(r0, "f2.txt", "s2")
            ex.gen_state["hold_at"] = {"p1": (":proxied", "p2")}
            return [("p1", [gitw, "commit", "-q", "-m", "human work"], r0, {}), ckpt("p2", r0, ["f2.txt"], "s2", 1)], closing
        if sc == "first_sync_fetch_vs_commit":
            # a clone that has never synced notes (made with plain git) fetches while it commits its first AI work:
            # the remote's notes arrive, the clone's own first note must not be lost
            remote = os.path.join(w.root, "remote.git")
            os.makedirs(remote)
            w.raw_git(remote, "init", "-q", "--bare", "-b", "main")
            w.raw_git(r0, "remote", "add", "origin", remote)
            w.ckpt_human(r0, ["f1.txt"])
            edit(r0, "f1.txt", "s1")
            w.ckpt_ai(r0, ["f1.txt"], "s1")
            w.git(r0, "add", "-A")
            w.git(r0, "commit", "-q", "-m", "upstream ai work")
            w.git(r0, "push", "-q", "-u", "origin", "main")
            w.tick(1000)
            cl = os.path.join(w.root, "cl")
            w.raw_git(w.root, "clone", "-q", remote, cl)
            ex.repos["cl"] = cl
            ex.gen_state["primary"] = cl
            # somebody else publishes one more commit with a note, so that the fetch has something to bring
            w.ckpt_human(r0, ["f2.txt"])
            edit(r0, "f2.txt", "s1")
            w.ckpt_ai(r0, ["f2.txt"], "s1")
            w.git(r0, "add", "-A")
            w.git(r0, "commit", "-q", "-m", "more upstream ai work")
            w.git(r0, "push", "-q", "origin", "main")
            w.tick(1000)
            w.ckpt_human(cl, ["f3.txt"])
            edit(cl, "f3.txt", "s2")
            w.ckpt_ai(cl, ["f3.txt"], "s2")
            w.raw_git(cl, "add", "-A")
            return [("p1", [gitw, "fetch", "-q", "origin"], cl, {}),
                    ("p2", [gitw, "commit", "-q", "-m", "first local ai work"], cl, {})], \
                [(cl, ["add", "-A"]), (cl, ["commit", "-q", "-m", "closing", "--allow-empty"])]
        if sc == "ckpt_vs_commit":
            w.ckpt_human(r0, ["f1.txt", "f2.txt"])
            edit(r0, "f1.txt", "s1")
            w.ckpt_ai(r0, ["f1.txt"], "s1")
            w.raw_git(r0, "add", "f1.txt")
            edit(r0, "f2.txt", "s2")
            return [("p1", [gitw, "commit", "-q", "-m", "c1"], r0, {}), ckpt("p2", r0, ["f2.txt"], "s2", 1)], closing
        # linked worktree scenarios
        wt = os.path.join(w.root, "wt2")
        w.raw_git(r0, "worktree", "add", "-q", "-b", "side", wt)
        ex.repos["wt2"] = wt
        closing = closing + [(wt, ["add", "-A"]), (wt, ["commit", "-q", "-m", "closing2"])]
        if sc == "commits_two_worktrees":
            for repo, f, s in ((r0, "f1.txt", "s1"), (wt, "f2.txt", "s2")):
                w.ckpt_human(repo, [f])
                edit(repo, f, s)
                w.ckpt_ai(repo, [f], s)
                w.raw_git(repo, "add", "-A")
            return [("p1", [gitw, "commit", "-q", "-m", "main work"], r0, {}),
                    ("p2", [gitw, "commit", "-q", "-m", "side work"], wt, {})], closing
        if sc == "rebase_vs_commit":
            # side gets an AI commit; main gets an upstream commit in another file; then: rebase side on main
            # (in wt2) racing a new AI commit on main (in r0)
            w.ckpt_human(wt, ["f2.txt"])
            edit(wt, "f2.txt", "s2")
            w.ckpt_ai(wt, ["f2.txt"], "s2")
            w.git(wt, "add", "-A")
            w.git(wt, "commit", "-q", "-m", "side ai")
            w.tick(1000)
            w.write(r0, "f3.txt", (w.read(r0, "f3.txt") or "") + "L%d upstream human\n" % ex.fresh_id())
            w.git(r0, "add", "-A")
            w.git(r0, "commit", "-q", "-m", "upstream")
            w.tick(1000)
            w.ckpt_human(r0, ["f1.txt"])
            edit(r0, "f1.txt", "s1")
            w.ckpt_ai(r0, ["f1.txt"], "s1")
            w.raw_git(r0, "add", "-A")
            main_sha = w.head(r0)
            return [("p1", [gitw, "rebase", main_sha], wt, {}),
                    ("p2", [gitw, "commit", "-q", "-m", "main ai"], r0, {})], closing
        raise ValueError(sc)

    def observe(self, ex, closing, results):
        w = ex.w
        r0 = ex.gen_state.get("primary") or ex.repos["r0"]
        def files_only(m):
            return {c: (v["files"] if isinstance(v, dict) else v) for c, v in m.items()}
        out = {"exit": {l: r["code"] for l, r in sorted(results.items())}, "journals": journals(w, r0),
               "notes_before": files_only(Notes(w, r0).canonical_map())}
        for repo, argv in closing:
            w.git(repo, *argv)
        out["notes"] = files_only(Notes(w, r0).canonical_map())
        blame = {}
        for name, repo in sorted(ex.repos.items()):
            for f in w.tracked_files(repo):
                bj, _r = w.blame_json(repo, f)
                blame[name + ":" + f] = sorted(bj[0].items()) if bj else None
        out["blame"] = blame
        return out

    def execute(self, ex, trace, rng, choices):
        cfg = trace["cfg"]
        cmds, closing = self.build(ex, cfg["scenario"])
        w = ex.w
        w.snapshot("pre")
        hold = ex.gen_state.get("hold")
        hold_at = ex.gen_state.get("hold_at")
        run = run_concurrent(w, cmds, rng=rng, choices=choices, policy=cfg["policy"], hold=hold, hold_at=hold_at)
        conc = self.observe(ex, closing, run["results"])
        labels = [c[0] for c in cmds]
        # distinct interleaving measure + probes
        seq = [l for l, _p in run["schedule"]]
        switches = sum(1 for a, b in zip(seq, seq[1:]) if a != b)
        if switches >= 2:
            ex.probe("interleaved")
        for _l, p in run["schedule"]:
            if p.startswith("ckpt.") or p.startswith("rwlog.") or p.startswith("post_commit."):
                ex.probe("point." + p)
            elif "fast-import" in p or "notes" in p:
                ex.probe("point." + p)
        ex.probe("policy." + cfg["policy"])
        ex.probe("scenario." + cfg["scenario"])
        for k, v in run.get("stats", {}).items():
            if v:
                ex.probe("sched." + k, v)
        if run["stalled"]:
            return run, {"monitor": "sched.progress", "class": "no_progress_within_step_cap",
                         "detail": {"steps": run["steps"], "schedule_tail": run["schedule"][-10:]}}
        refs = []
        for perm in itertools.permutations(range(len(cmds))):
            w.restore("pre")
            results = {}
            if hold and [cmds[i][0] for i in perm][0] in hold:
                continue        # an order the scenario's start constraint excludes
            if hold_at and [cmds[i][0] for i in perm][0] in hold_at:
                continue        # (the held party cannot complete first)
            for i in perm:
                r = run_concurrent(w, [cmds[i]], rng=None, choices=None)
                results.update(r["results"])
            refs.append((perm, self.observe(ex, closing, results)))
        w.drop_snapshot("pre")
        def equivalent(ref):
            if ref == conc:
                return True
            if cfg["scenario"] == "ckpt_same_file":
                # two reports that overlap on one file: sequentially the second one finds nothing
                # left to report; concurrently both leave a record.  Nothing is lost as long as the
                # sequential records are all there and notes and blame agree.
                rest = lambda o: {k: v for k, v in o.items() if k != "journals"}
                if rest(ref) != rest(conc):
                    return False
                for k, ents in ref["journals"].items():
                    have = list(conc["journals"].get(k, []))
                    for e in ents:
                        if e not in have:
                            return False
                        have.remove(e)
                return True
            return False
        for perm, ref in refs:
            if equivalent(ref):
                return run, None
        # classify the difference against the closest sequential order
        best = min(refs, key=lambda pr: sum(1 for k in conc if conc[k] != pr[1][k]))
        diff_keys = sorted(k for k in conc if conc[k] != best[1][k])
        cls = "differs_from_every_sequential_order_in_" + "_".join(diff_keys)
        detail = {"scenario": cfg["scenario"], "policy": cfg["policy"], "closest_order": [labels[i] for i in best[0]],
                  "schedule": run["schedule"][:80]}
        for k in diff_keys:
            detail["concurrent." + k] = json.dumps(conc[k], sort_keys=True)[:500]
            detail["sequential." + k] = json.dumps(best[1][k], sort_keys=True)[:500]
        return run, {"monitor": "sched.linearizable", "class": cls, "detail": detail}

    def run_generated(self, rng, root, tier, index, full_digests=False):
        trace = self.header(rng, tier, index)
        ex = Exec(root, trace)
        ex.init()
        srng = random.Random(trace["cfg"]["sched_seed"])
        run, viol = self.execute(ex, trace, srng, None)
        trace["schedule"] = run["schedule"]
        if viol:
            viol["step"] = 0
        res = Prop._result(self, ex, trace, viol)
        res["distinct_set"] = [json.dumps(run["schedule"])] if len(set(l for l, _ in run["schedule"])) > 1 else []
        res["nontrivial"] = bool(ex.probes.get("interleaved"))
        res["sample"] = {"scenario": trace["cfg"]["scenario"], "policy": trace["cfg"]["policy"],
                         "schedule": run["schedule"][:40]}
        return res

    def run_trace(self, trace, root, full_digests=False):
        trace = {k: v for k, v in trace.items() if k != "violation"}
        ex = Exec(root, trace)
        ex.init()
        run, viol = self.execute(ex, trace, None, trace.get("schedule") or [])
        if viol:
            viol["step"] = 0
        res = Prop._result(self, ex, trace, viol)
        res["sample"] = {"scenario": trace["cfg"]["scenario"]}
        return res

    def trace_valid(self, trace):
        return False      # the op list is empty; the schedule is minimised separately


PROP = C11()
