"""Ledger: the reference model of authorship (DESIGN §3.7).

Independent of git-ai: it is driven only by the simulated edits (who wrote which text) and is
keyed by normalised line text, so it does not know about line numbers, commits or branches.
History rewriting never changes it.
"""
import re

HUMAN = "human"
_ws = re.compile(r"\s+")
_uid = re.compile(r"(?<![A-Za-z0-9])[Lmp][0-9]+(?![A-Za-z0-9])")


def norm(line):
    """Whitespace-insensitive identity of a line (whitespace-only changes are not substantive)."""
    return _ws.sub("", line)


def split_lines(content):
    """Lines as git counts them (a trailing fragment without newline is a line)."""
    if content is None or content == "":
        return []
    lines = content.split("\n")
    if lines[-1] == "":
        lines.pop()
    return [ln[:-1] if ln.endswith("\r") else ln for ln in lines]


class Ledger:
    def __init__(self):
        self.authors = {}   # norm text -> set of authors who introduced that text
        self.log = []       # for traces

    def seed(self, content, who=HUMAN):
        for ln in split_lines(content):
            self.authors.setdefault(norm(ln), set()).add(who)

    def edit(self, old, new, who):
        """`who` turned `old` into `new`: every line text that is new to the file (more copies
        than before) was written by `who`."""
        oldc, newc = {}, {}
        for ln in split_lines(old):
            k = norm(ln)
            oldc[k] = oldc.get(k, 0) + 1
        for ln in split_lines(new):
            k = norm(ln)
            newc[k] = newc.get(k, 0) + 1
        for k, n in newc.items():
            if n > oldc.get(k, 0):
                self.authors.setdefault(k, set()).add(who)

    def ws_change_of_committed(self, old, new, committed, who):
        """`who` changed only the whitespace of lines that are already committed: git blame will
        assign the re-indented line to the new commit, so either the original author or `who`
        may be reported (C01 quantifies over one commit cycle, C09 defines blame this way)."""
        def exact(c):
            return set((c or "").splitlines(keepends=True))
        old_exact = exact(old)
        old_norm = {norm(x) for x in old_exact}
        committed_exact = exact(committed)
        committed_norm = {norm(x) for x in committed_exact}
        for ln in exact(new):
            if ln not in old_exact and norm(ln) in old_norm and norm(ln) in committed_norm \
                    and ln not in committed_exact:
                self.authors.setdefault(norm(ln), set()).update((who, HUMAN))

    def resolver_touched(self, lines):
        for ln in lines:
            k = norm(ln)
            if k in self.authors:
                self.authors[k].add(HUMAN)

    def who(self, line):
        """Set of acceptable authors for this text; None = unconstrained (blank / unknown)."""
        k = norm(line)
        if k == "":
            return None
        a = self.authors.get(k)
        if a is not None and not _uid.search(line):
            # a line made only of common tokens ("}", "return;"): the token-level diff may
            # legitimately keep such a line with whoever wrote those tokens before
            return a | {HUMAN}
        return a

    def to_json(self):
        return {k: sorted(v) for k, v in sorted(self.authors.items())}
