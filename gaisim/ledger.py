"""Ledger: the reference model of authorship (DESIGN §3.7).

Independent of git-ai: it is driven only by the simulated edits (who wrote which text) and is
keyed by normalised line text, so it does not know about line numbers, commits or branches.
History rewriting never changes it.
"""
import re

HUMAN = "human"
_ws = re.compile(r"\s+")
_uid = re.compile(r"(?<![A-Za-z0-9])[Lmp][0-9]+(?![A-Za-z0-9])")


def norm(line):
    """Whitespace-insensitive identity of a line (whitespace-only changes are not substantive)."""
    return _ws.sub("", line)


def split_lines(content):
    """Lines as git counts them (a trailing fragment without newline is a line)."""
    if content is None or content == "":
        return []
    lines = content.split("\n")
    if lines[-1] == "":
        lines.pop()
    return [ln[:-1] if ln.endswith("\r") else ln for ln in lines]


class Ledger:
    def __init__(self):
        self.authors = {}   # norm text -> set of authors who introduced that text
        self.log = []       # for traces

    def seed(self, content, who=HUMAN):
        for ln in split_lines(content):
            self.authors.setdefault(norm(ln), set()).add(who)

    def edit(self, old, new, who):
        """`who` turned `old` into `new`: every line text that is new to the file (more copies
        than before) was written by `who`."""
        oldc, newc = {}, {}
        for ln in split_lines(old):
            k = norm(ln)
            oldc[k] = oldc.get(k, 0) + 1
        for ln in split_lines(new):
            k = norm(ln)
            newc[k] = newc.get(k, 0) + 1
        for k, n in newc.items():
            if n > oldc.get(k, 0):
                self.authors.setdefault(k, set()).add(who)
        self._crossed_by_common_lines(split_lines(old), split_lines(new), who)

    def _crossed_by_common_lines(self, old_lines, new_lines, who):
        """A kept line X over which a blank line (or a line made of common tokens only) has moved - one copy fewer on
        one side of X and one more on the other - can equally well be read by a diff as 'X deleted and written again':
        matching the common line instead of X is an equally long common subsequence. The editor is then an acceptable
        author of X (the diff's freedom, as for duplicated lines)."""
        o = [norm(x) for x in old_lines]
        n = [norm(x) for x in new_lines]
        has_uid = {norm(x): bool(_uid.search(x)) for x in list(old_lines) + list(new_lines)}
        common = {k for k in set(o) & set(n) if k == "" or not has_uid.get(k)}
        if not common:
            return
        opos = {k: i for i, k in enumerate(o)}
        npos = {k: i for i, k in enumerate(n)}
        for k in set(opos) & set(npos):
            if k in common or o.count(k) != 1 or n.count(k) != 1:
                continue
            i, j = opos[k], npos[k]
            for b in common:
                ob, oa = o[:i].count(b), o[i + 1:].count(b)
                nb, na = n[:j].count(b), n[j + 1:].count(b)
                if (nb > ob and na < oa) or (nb < ob and na > oa):
                    self.authors.setdefault(k, set()).add(who)
                    break

    def ws_change_of_committed(self, old, new, committed, who):
        """`who` changed only the whitespace of lines that are already committed: git blame will
        assign the re-indented line to the new commit, so either the original author or `who`
        may be reported (C01 quantifies over one commit cycle, C09 defines blame this way)."""
        def exact(c):
            return set((c or "").splitlines(keepends=True))
        old_exact = exact(old)
        old_norm = {norm(x) for x in old_exact}
        committed_exact = exact(committed)
        committed_norm = {norm(x) for x in committed_exact}
        for ln in exact(new):
            if ln not in old_exact and norm(ln) in old_norm and norm(ln) in committed_norm \
                    and ln not in committed_exact:
                self.authors.setdefault(norm(ln), set()).update((who, HUMAN))

    def resolver_touched(self, lines):
        for ln in lines:
            k = norm(ln)
            if k in self.authors:
                self.authors[k].add(HUMAN)

    def who(self, line):
        """Set of acceptable authors for this text; None = unconstrained (blank / unknown)."""
        k = norm(line)
        if k == "":
            return None
        a = self.authors.get(k)
        if a is not None and not _uid.search(line):
            # a line made only of common tokens ("}", "return;"): the token-level diff may
            # legitimately keep such a line with whoever wrote those tokens before
            return a | {HUMAN}
        return a

    def to_json(self):
        return {k: sorted(v) for k, v in sorted(self.authors.items())}
