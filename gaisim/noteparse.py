"""Independent parser of Git AI Standard v3 authorship logs, written from
specs/git_ai_standard_v3.0.0.md (not from authorship_log_serialization.rs)."""
import json
import re

HEX = re.compile(r"^[0-9a-f]{7,64}$")


class NoteError(Exception):
    pass


def parse_ranges(spec):
    """-> list of (start,end) as written; raises NoteError on grammar violations."""
    if spec == "" or " " in spec or "\t" in spec:
        raise NoteError("bad range spec %r" % spec)
    out = []
    for part in spec.split(","):
        if re.fullmatch(r"[0-9]+", part):
            a = b = int(part)
        elif re.fullmatch(r"[0-9]+-[0-9]+", part):
            a, b = (int(x) for x in part.split("-"))
        else:
            raise NoteError("bad range item %r" % part)
        if a < 1 or b < a:
            raise NoteError("range not 1-based ascending %r" % part)
        out.append((a, b))
    return out


def parse_note(text):
    """-> dict(files={path: [(hash, [(a,b),...]), ...]} (in order), meta=json object,
              file_order=[paths])"""
    lines = text.split("\n")
    try:
        div = lines.index("---")
    except ValueError:
        raise NoteError("no divider line")
    att, meta_text = lines[:div], "\n".join(lines[div + 1:])
    files = {}
    order = []
    cur = None
    for ln in att:
        if ln == "":
            continue
        if ln.startswith("  ") and not ln.startswith("   "):
            if cur is None:
                raise NoteError("entry before any path line: %r" % ln)
            body = ln[2:]
            if " " not in body:
                raise NoteError("entry without range: %r" % ln)
            h, spec = body.split(" ", 1)
            if not HEX.match(h):
                raise NoteError("bad hash %r" % h)
            files[cur].append((h, parse_ranges(spec)))
        elif ln[0] in " \t":
            raise NoteError("bad indentation: %r" % ln)
        else:
            p = ln
            if p.startswith('"') and p.endswith('"') and len(p) >= 2:
                p = p[1:-1]
            elif any(c in p for c in " \t"):
                raise NoteError("unquoted path with whitespace: %r" % ln)
            if p in files:
                raise NoteError("duplicate path section %r" % p)
            files[p] = []
            order.append(p)
            cur = p
    try:
        meta = json.loads(meta_text)
    except ValueError as ex:
        raise NoteError("metadata is not JSON: %s" % ex)
    if not isinstance(meta, dict):
        raise NoteError("metadata is not an object")
    return {"files": files, "meta": meta, "file_order": order}


def line_map(parsed, path):
    """{line -> hash}; later entries win (as the overlay in blame does)."""
    m = {}
    for h, ranges in parsed["files"].get(path, []):
        for a, b in ranges:
            for n in range(a, b + 1):
                m[n] = h
    return m


def canonical(parsed):
    """Order-insensitive comparison form: {path: {hash: sorted line list}} + prompt agent ids."""
    files = {}
    for p, entries in parsed["files"].items():
        per = {}
        for h, ranges in entries:
            s = per.setdefault(h, set())
            for a, b in ranges:
                s.update(range(a, b + 1))
        files[p] = {h: sorted(v) for h, v in sorted(per.items()) if v}
    files = {p: v for p, v in sorted(files.items()) if v}
    prompts = {}
    for h, rec in sorted((parsed["meta"].get("prompts") or {}).items()):
        aid = rec.get("agent_id") or {}
        prompts[h] = [aid.get("tool"), aid.get("id"), aid.get("model")]
    return {"files": files, "prompts": prompts}


def well_formed_problems(parsed, commit_sha, file_line_counts):
    """C05 checks that need only the note and the commit's tree.
    file_line_counts: {path: line count} for every blob in the commit."""
    probs = []
    meta = parsed["meta"]
    if meta.get("schema_version") != "authorship/3.0.0":
        probs.append("schema_version=%r" % meta.get("schema_version"))
    if meta.get("base_commit_sha") != commit_sha:
        probs.append("base_commit_sha=%r != %s" % (meta.get("base_commit_sha"), commit_sha))
    prompts = meta.get("prompts")
    if not isinstance(prompts, dict):
        probs.append("prompts missing")
        prompts = {}
    for p, entries in parsed["files"].items():
        if p not in file_line_counts:
            probs.append("path not in commit: %r" % p)
            continue
        if not entries:
            probs.append("path without entries: %r" % p)
        n = file_line_counts[p]
        for h, ranges in entries:
            if h not in prompts:
                probs.append("hash without prompt record: %s (%r)" % (h, p))
            if h == "human" or not HEX.match(h):
                probs.append("non-session author %r" % h)
            prev_end = 0
            for a, b in ranges:
                if a <= prev_end:
                    probs.append("ranges unsorted/overlapping in %r %s" % (p, h))
                prev_end = b
                if b > n:
                    probs.append("line %d beyond %d lines of %r" % (b, n, p))
    return probs
