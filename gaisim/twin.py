"""Twin worlds: the same concrete ops applied in lock step to a plain-git world (reference) and a
git-ai world (wrapper or hooks mode).  Used by C06 (refinement, fault free) and C07 (faults)."""
import hashlib
import os

from .engine import Exec

USER_HOOKS = ["pre-commit", "prepare-commit-msg", "commit-msg", "post-commit", "post-checkout", "post-merge",
              "post-rewrite", "pre-rebase", "post-applypatch", "pre-merge-commit", "pre-push", "reference-transaction"]

HOOK_SCRIPT = """#!/bin/sh
# user hook stub: records that it ran (and its arguments) outside the work tree
printf '%s %s\\n' "{name}" "$*" >> "$HOOKS_LOG"
if [ "{name}" = "post-rewrite" ] || [ "{name}" = "reference-transaction" ]; then cat >> "$HOOKS_LOG"; fi
exit 0
"""


def install_user_hooks(w, repo, hooks_dir=None):
    hd = hooks_dir or os.path.join(repo, ".git", "hooks")
    os.makedirs(hd, exist_ok=True)
    for name in USER_HOOKS:
        p = os.path.join(hd, name)
        with open(p, "w") as f:
            f.write(HOOK_SCRIPT.format(name=name))
        os.chmod(p, 0o755)


def sha(b):
    if isinstance(b, str):
        b = b.encode("utf-8", "replace")
    return hashlib.sha256(b).hexdigest()[:16]


def worktree_digest(repo):
    items = []
    for base, dirs, files in os.walk(repo):
        dirs[:] = sorted(d for d in dirs if not (base == repo and d == ".git"))
        for f in sorted(files):
            p = os.path.join(base, f)
            rel = os.path.relpath(p, repo)
            try:
                if os.path.islink(p):
                    items.append((rel, "link", os.readlink(p)))
                else:
                    with open(p, "rb") as fh:
                        items.append((rel, oct(os.stat(p).st_mode & 0o111), sha(fh.read())))
            except OSError:
                items.append((rel, "unreadable", ""))
    return items


def in_progress_state(repo):
    gd = os.path.join(repo, ".git")
    out = {}
    for name in ("MERGE_HEAD", "CHERRY_PICK_HEAD", "REVERT_HEAD", "MERGE_MSG", "SQUASH_MSG", "ORIG_HEAD",
                 "AUTO_MERGE", "BISECT_LOG", "FETCH_HEAD"):
        p = os.path.join(gd, name)
        if os.path.exists(p):
            with open(p, "rb") as f:
                out[name] = sha(f.read().replace(repo.encode(), b"{REPO}"))
    for d in ("rebase-merge", "rebase-apply", "sequencer"):
        p = os.path.join(gd, d)
        if os.path.isdir(p):
            ent = {}
            for f in sorted(os.listdir(p)):
                fp = os.path.join(p, f)
                if os.path.isfile(fp):
                    with open(fp, "rb") as fh:
                        ent[f] = sha(fh.read().replace(repo.encode(), b"{REPO}"))
            out[d] = ent
    return out


def observable_state(w, repo):
    """Everything C06 says must be identical (notes namespaces and .git/ai excluded)."""
    st = {}
    st["HEAD"] = w.raw_git(repo, "rev-parse", "HEAD").out.strip()
    st["HEAD_sym"] = w.raw_git(repo, "symbolic-ref", "-q", "HEAD").out.strip()
    refs = w.raw_git(repo, "for-each-ref", "--format=%(refname) %(objectname)").out.splitlines()
    st["refs"] = sorted(r for r in refs if not r.startswith("refs/notes/ai"))
    st["index"] = w.raw_git(repo, "ls-files", "-s", "-z").out
    st["worktree"] = worktree_digest(repo)
    st["stash"] = w.raw_git(repo, "stash", "list", "--format=%H %gs").out
    st["in_progress"] = in_progress_state(repo)
    try:
        with open(w.hooks_log) as f:
            st["hooks_log"] = f.read().replace(w.root, "{ROOT}")
    except OSError:
        st["hooks_log"] = ""
    return st


def diff_states(a, b):
    return sorted(k for k in a if a[k] != b.get(k))


class TwinExec(Exec):
    """`self` is the reference world (plain git); `self.b` is the git-ai world."""

    def __init__(self, root, trace):
        ta = dict(trace)
        ta["world"] = dict(trace.get("world", {}), mode="plain", use_simgit=False)
        os.makedirs(os.path.join(root, "A"))
        os.makedirs(os.path.join(root, "B"))
        Exec.__init__(self, os.path.join(root, "A"), ta)
        self.b = Exec(os.path.join(root, "B"), trace)
        self.cmp_notes = []

    def init(self):
        Exec.init(self)
        self.b.init()
        if self.b.w.mode == "both":
            # the user keeps their hooks in a directory named by core.hooksPath (what the managed hooks
            # forward to); the managed hooks are installed on top of that in the git-ai world only
            for ex in (self, self.b):
                hd = os.path.join(ex.w.root, "userhooks")
                install_user_hooks(ex.w, ex.repos["r0"], hd)
                ex.w.raw_git(ex.repos["r0"], "config", "core.hooksPath", hd)
            self.b.w.ensure_hooks(self.b.repos["r0"])
        elif self.trace.get("cfg", {}).get("user_hooks", True):
            install_user_hooks(self.w, self.repos["r0"])
            install_user_hooks(self.b.w, self.b.repos["r0"])
        for k, v in (self.trace.get("cfg", {}).get("aliases") or {}).items():
            self.w.raw_git(self.repos["r0"], "config", "alias." + k, v)
            self.b.w.raw_git(self.b.repos["r0"], "config", "alias." + k, v)

    def apply(self, op):
        ra = Exec.apply(self, op)
        rb = self.b.apply(op)
        ra["b"] = rb
        return ra

    def norm_out(self, text, which):
        root = self.w.root if which == "a" else self.b.w.root
        return text.replace(root, "{ROOT}")
