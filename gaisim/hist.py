"""History workloads: scenario families over the git porcelain (DESIGN §3.6, §4 C02).

Every family is a Python generator that yields concrete ops; between yields it may look at the
world (file contents, in-progress state) to decide the next op — online generation.  What is
recorded in the trace is only the concrete op, so replay never needs these generators.
"""
import os

from . import gen
from .ledger import HUMAN, split_lines


SEQED = r'''#!/usr/bin/python3
import os, sys
plan = os.environ.get("SIM_TODO_PLAN", "")
path = sys.argv[1]
lines = [l for l in open(path).read().split("\n")]
cmds = [l for l in lines if l.strip() and not l.startswith("#")]
rest = [l for l in lines if not (l.strip() and not l.startswith("#"))]
for item in plan.split(";"):
    if not item:
        continue
    k, _, a = item.partition(":")
    if k == "reverse":
        cmds.reverse()
    elif k == "swap":
        i, j = (int(x) for x in a.split(","))
        if i < len(cmds) and j < len(cmds):
            cmds[i], cmds[j] = cmds[j], cmds[i]
    elif k in ("squash", "fixup", "drop", "edit", "reword"):
        i = int(a)
        if i < len(cmds):
            parts = cmds[i].split(" ", 1)
            cmds[i] = k + " " + parts[1]
open(path, "w").write("\n".join(cmds + rest) + "\n")
'''


class G:
    """Generation context."""

    def __init__(self, rng, ex, cfg, repo_name="r0"):
        self.rng, self.ex, self.cfg = rng, ex, cfg
        self.repo_name = repo_name
        self.msg_n = 0
        self.hz = cfg.get("hazards") or {}
        self.human_pre_ckpt = cfg.get("human_pre_ckpt", True)
        self.gates = set(cfg.get("gates") or [])

    def gated(self, name):
        return name in self.gates

    def choose_pos(self, options, gate=None, banned=()):
        if gate and self.gated(gate):
            options = [o for o in options if o not in banned]
        return self.rng.choice(options)

    @property
    def repo(self):
        return self.ex.repos[self.repo_name]

    @property
    def w(self):
        return self.ex.w

    # ---------------------------------------------------------------- state inspection
    def git_dir(self):
        r = self.w.raw_git(self.repo, "rev-parse", "--absolute-git-dir")
        return r.out.strip()

    def in_progress(self):
        gd = self.git_dir()
        if os.path.isdir(os.path.join(gd, "rebase-merge")) or os.path.isdir(os.path.join(gd, "rebase-apply")):
            return "rebase"
        if os.path.exists(os.path.join(gd, "CHERRY_PICK_HEAD")):
            return "cherry-pick"
        if os.path.exists(os.path.join(gd, "MERGE_HEAD")):
            return "merge"
        if os.path.exists(os.path.join(gd, "REVERT_HEAD")):
            return "revert"
        if os.path.exists(os.path.join(gd, "sequencer", "todo")):
            from .engine import in_progress
            return in_progress(self.w, self.repo)
        return None

    def has_conflicts(self):
        r = self.w.raw_git(self.repo, "diff", "--name-only", "--diff-filter=U")
        return bool(r.out.strip())

    def worktree_files(self):
        r = self.w.raw_git(self.repo, "ls-files", "-z", "--cached", "--others", "--exclude-standard")
        out = []
        for p in sorted(set(x for x in r.out.split("\0") if x)):
            c = self.w.read(self.repo, p)
            if c is not None and "\0" not in c and not p.startswith(".git"):
                out.append(p)
        return out

    def dirty(self):
        return bool(self.w.raw_git(self.repo, "status", "--porcelain").out.strip())

    def branch(self):
        return self.w.raw_git(self.repo, "rev-parse", "--abbrev-ref", "HEAD").out.strip()

    def head(self, rev="HEAD"):
        return self.w.head(self.repo, rev)

    # ---------------------------------------------------------------- op builders
    def dt(self):
        return 1000 + self.rng.randint(0, 600000)

    def git(self, *argv, **kw):
        op = {"op": "git", "argv": list(argv), "dt": self.dt()}
        if self.repo_name != "r0":
            op["repo"] = self.repo_name
        op.update(kw)
        return op

    def msg(self):
        self.msg_n += 1
        return "m%d" % self.msg_n

    def commit_all(self, **kw):
        if self.cfg.get("old_author_dates") and "env" not in kw and self.rng.random() < 0.5:
            # work that was authored long ago (a patch applied with its original date, git commit --date=..): the author
            # date lies before git-ai existed, the committer date is now
            kw["env"] = {"GIT_AUTHOR_DATE": "@%d +0000" % self.rng.choice([1709251200, 1735689600, 1262304000])}
            self.ex.probe("old_author_date")
        return [self.git("add", "-A"), self.git("commit", "-q", "-m", self.msg(), check=True, **kw)]

    def pick_session(self):
        return self.rng.choice(self.ex.sessions)

    def edit(self, who, path=None, kinds=None, pos=None, max_block=4, new_file=False, pre_ckpt=None):
        rng = self.rng
        files = self.worktree_files()
        if new_file or not files:
            pool = [p for p in gen.PLAIN_NAMES + (gen.HAZARD_NAMES if self.hz.get("names") else [])
                    if p not in files]
            path = rng.choice(pool) if pool else "extra/n%d.txt" % self.ex.fresh_id()
            old = None
            kinds = ["insert"]
        elif path is None:
            path = rng.choice(files)
            if who == HUMAN and self.gated("initial_positional"):
                # known finding: a human edit of a still-untracked file is invisible to checkpoints
                r = self.w.raw_git(self.repo, "ls-files", "-z")
                tracked = [f for f in files if f in set(r.out.split("\0"))]
                if tracked and path not in tracked:
                    path = rng.choice(tracked)
        old = self.w.read(self.repo, path)
        new, desc = gen.mutate(rng, self.ex, old, who, self.hz, kinds=kinds,
                               pos_classes=[pos] if pos else None, max_block=max_block)
        if len(split_lines(new)) > self.cfg.get("max_lines", 60):
            new, desc = gen.mutate(rng, self.ex, old, who, self.hz, kinds=["delete"], max_block=12)
        op = {"op": "edit", "who": who, "files": {path: new}, "desc": desc, "dt": self.dt(),
              "dt2": rng.randint(1, 5000)}
        if self.repo_name != "r0":
            op["repo"] = self.repo_name
        if who == HUMAN:
            if (pre_ckpt if pre_ckpt is not None else self.human_pre_ckpt) or self.gated("initial_positional"):
                op["pre_ckpt"] = True
        elif self.cfg.get("dirty_buffers") and new is not None and rng.random() < 0.3:
            op["dirty"] = True      # reported from an unsaved editor buffer (dirty_files)
        return op

    def ai_edit(self, **kw):
        return self.edit(self.pick_session(), **kw)

    def ai_edit_two_files(self, path=None, kinds=None, pos=None):
        """one agent report (one checkpoint) that covers edits to two files"""
        files = [f for f in self.worktree_files()]
        if len(files) < 2:
            return self.ai_edit(path=path, kinds=kinds, pos=pos)
        who = self.pick_session()
        a = self.edit(who, path=path, kinds=kinds, pos=pos)
        pa = sorted(a["files"])[0]
        others = [f for f in files if f != pa]
        b = self.edit(who, path=self.rng.choice(others), kinds=kinds or ["insert", "append", "replace", "modify"])
        a["files"].update(b["files"])
        a["desc"] = dict(a.get("desc") or {}, second=b.get("desc"))
        a.pop("dirty", None)
        self.ex.probe("ai_edit.two_files")
        return a

    def ai_twin_files(self):
        """an agent writes two new files with byte-identical content in one report (a second __init__.py, a copied
        config): content-addressed snapshots of the two files coincide"""
        a = self.edit(self.pick_session(), new_file=True, max_block=6)
        pa = sorted(a["files"])[0]
        pb = "twin%d/%s" % (self.ex.fresh_id(), os.path.basename(pa) or "t.txt")
        a["files"][pb] = a["files"][pa]
        a.pop("dirty", None)
        self.twins_done = True
        self.ex.probe("ai_edit.twin_files")
        return a

    def human_edit(self, **kw):
        return self.edit(HUMAN, **kw)

    def some_edits(self, n_ai=(1, 2), n_human=(0, 1), path=None, pos=None, ai_kinds=None, human_kinds=None):
        """a shuffled batch of AI and human edits"""
        rng = self.rng
        batch = ["ai"] * rng.randint(*n_ai) + ["human"] * rng.randint(*n_human)
        rng.shuffle(batch)
        for b in batch:
            if self.cfg.get("stage_as_you_go") and rng.random() < 0.35:
                # people stage as they go: staged files are in the scope of every later checkpoint
                r = self.w.raw_git(self.repo, "status", "--porcelain", "-z")
                changed = sorted(set(x[3:] for x in r.out.split("\0") if x and len(x) > 3 and x[1] != " "))
                changed = [c for c in changed if self.w.read(self.repo, c) is not None]
                if changed:
                    self.ex.probe("stage_as_you_go")
                    yield self.git("add", "--", rng.choice(changed))
            if b == "ai" and self.hz.get("twins") and not getattr(self, "twins_done", False) and path is None and rng.random() < 0.5:
                yield self.ai_twin_files()
            elif b == "ai" and rng.random() < 0.15:
                yield self.ai_edit_two_files(path=path, pos=pos, kinds=ai_kinds or ["insert", "insert", "replace", "modify", "append"])
            elif b == "ai":
                yield self.ai_edit(path=path, pos=pos, kinds=ai_kinds or ["insert", "insert", "replace", "modify", "append"])
            else:
                yield self.human_edit(path=path, pos=pos, kinds=human_kinds)

    def install_seqed(self):
        return None

    def seq_env(self, plan):
        # {ROOT} is substituted by the executor: traces never contain scratch paths
        return {"GIT_SEQUENCE_EDITOR": "{ROOT}/seqed.py", "SIM_TODO_PLAN": plan}


# ======================================================================================
# families.  Each takes G and yields ops.  `pos` = position class of the *upstream* change
# relative to the AI lines; `cfg` knobs are drawn by the caller and stored in the trace header.
# ======================================================================================

def upstream_change(g, pos, path, other_path=None, who=None):
    """one upstream (other-branch) change at a position class relative to AI lines of `path`"""
    who = who or (HUMAN if g.rng.random() < 0.7 else g.pick_session())
    if pos == "other_file":
        files = [f for f in g.worktree_files() if f != path]
        if files:
            return g.edit(who, path=g.rng.choice(files), kinds=["insert", "replace", "modify", "append"])
        return g.edit(who, new_file=True)
    if pos == "conflict":
        return g.edit(who, path=path, kinds=["modify"], pos="inside_ai", max_block=2)
    return g.edit(who, path=path, kinds=["insert", "insert", "delete", "replace"],
                  pos={"above": "top", "below": "bottom", "interleaved": "any"}.get(pos, "any"))


def resolve_loop(g, continue_cmd, abort_cmd, allow_abort=True, strategy=None, must_abort=False):
    """after a stop: resolve conflicts and continue until done, or abort"""
    for _ in range(8):
        st = g.in_progress()
        if not st:
            return
        g.ex.probe("conflict.stop")
        if must_abort or (allow_abort and g.rng.random() < 0.25):
            g.ex.gen_state["aborted"] = True
            g.ex.gen_state["aborted_kind"] = abort_cmd[0]
            yield g.git(*abort_cmd, aborts=True)
            return
        if g.has_conflicts():
            # a resolver picks one side per region (keeping both the old and the new version of a
            # modified line, as "union" does, is not something the property describes)
            yield {"op": "resolve", "strategy": strategy or g.rng.choice(["ours", "theirs"]), "dt": g.dt()}
        yield g.git(*continue_cmd, env={"GIT_EDITOR": "true"}, check=True)
    if g.in_progress():
        yield g.git(*abort_cmd, aborts=True)


def fam_feature_branch(g, n_commits, path, name="feat", rewritten=False, distinct_files=False):
    yield g.git("checkout", "-q", "-b", name)
    own = []
    if distinct_files:
        # every commit of the branch works in a file of its own (what squash / fixup / reorder then fold together)
        own = [f for f in g.worktree_files() if f != path]
        g.rng.shuffle(own)
        own = [path] + own
        g.ex.probe("feature.distinct_files")
    for k in range(n_commits):
        if distinct_files and k >= len(own):
            yield g.ai_edit(new_file=True)
            own.append(None)
        cpath = (own[k] if distinct_files and own[k] else (path if g.rng.random() < 0.7 else None))
        for op in g.some_edits(n_ai=(1, 2), n_human=(0, 1), path=cpath,
                               human_kinds=(["insert", "delete", "replace", "reindent", "append"]
                                            if rewritten and g.gated("rebase_human_intraline_edit") else None)):
            yield op
        for op in g.commit_all():
            yield op


def fam_rebase(g, kind="plain"):
    rng = g.rng
    files = g.worktree_files()
    path = rng.choice(files) if files else None
    base_branch = g.branch()
    n = rng.randint(1, 3)
    pos = rng.choice(["above", "below", "interleaved", "other_file", "other_file", "conflict"])
    after_abort = kind != "interactive" and rng.random() < 0.2
    if after_abort:
        # variant: the first attempt stops on a conflict and is aborted, the second one is seen through
        pos, n = "conflict", 1
    distinct = kind == "interactive" and n > 1 and rng.random() < 0.4
    yield from fam_feature_branch(g, n, path, rewritten=True, distinct_files=distinct)
    yield g.git("checkout", "-q", base_branch)
    for _ in range(rng.randint(1, 2)):
        yield upstream_change(g, pos, path)
        yield from g.commit_all()
    yield g.git("checkout", "-q", "feat")
    before = g.head()
    if kind == "plain":
        # the spellings that replay the same commits: forced, on the old base, with the am backend, ...
        extra = rng.choice([[], [], [], [], ["--no-ff"], ["--keep-base", "-f"], ["--apply"], ["--rebase-merges"],
                            ["--committer-date-is-author-date"], ["--reapply-cherry-picks"], ["--keep-base", "--no-ff"]])
        if after_abort:
            extra = []
        if extra:
            g.ex.probe("rebase.opt." + extra[0].lstrip("-"))
        yield g.git("rebase", *extra, base_branch, rewrite=True)
    elif kind == "onto":
        # rebase only the last k commits of feat onto base_branch
        k = rng.randint(1, n)
        yield g.git("rebase", "--onto", base_branch, "feat~%d" % k, "feat", rewrite=True)
    else:
        op = g.install_seqed()
        if op:
            yield op
        plans = ["reverse", "swap:0,1", "squash:1", "fixup:1", "drop:0", "drop:%d" % (n - 1), "edit:0",
                 "squash:1;squash:2", "reword:0", "fixup:%d" % (n - 1)]
        if g.gated("rebase_i_drop"):
            plans = [p for p in plans if not p.startswith("drop")]
        if g.gated("hooks_rebase_reorder_new_file") and distinct:
            # listed (C13 only): re-ordering commits of which one creates a file loses that file's attestation in hooks mode
            plans = [p for p in plans if not p.startswith(("reverse", "swap"))]
        plan = rng.choice(plans)
        g.ex.probe("rebase_i." + plan.split(":")[0])
        extra = rng.choice([[], [], [], ["--keep-base"], ["--keep-base"], ["--rebase-merges"]])
        if extra:
            g.ex.probe("rebase_i.opt." + extra[0].lstrip("-"))
        yield g.git("rebase", "-i", *extra, base_branch, env=g.seq_env(plan), rewrite=True, plan=plan)
        if g.in_progress() == "rebase" and not g.has_conflicts() and plan.startswith("edit"):
            # stopped for editing: amend with an AI or human change, then continue
            if not g.gated("rebase_edit_amend"):
                yield (g.ai_edit(path=path) if rng.random() < 0.6 else g.human_edit(path=path))
                yield g.git("add", "-A")
                yield g.git("commit", "-q", "--amend", "--no-edit")
            yield g.git("rebase", "--continue", env={"GIT_EDITOR": "true"}, check=True)
    g.ex.gen_state["aborted"] = False
    multi_gate = n > 1 and g.gated("rebase_conflict_multi_commit")
    yield from resolve_loop(g, ["rebase", "--continue"], ["rebase", "--abort"], must_abort=multi_gate or after_abort)
    if g.ex.gen_state.get("aborted") and not g.in_progress() and not multi_gate and kind != "interactive" \
            and (after_abort or rng.random() < 0.6):
        # after giving up, the person starts the same rebase again and this time resolves the conflict
        g.ex.probe("rebase.again_after_abort")
        yield g.git("rebase", base_branch, rewrite=True)
        yield from resolve_loop(g, ["rebase", "--continue"], ["rebase", "--abort"], allow_abort=False)
    if g.head() != before:
        g.ex.probe("rebase.rewrote")


def fam_rebase_stop(g):
    """a one-commit rebase that stops (conflict or 'edit') and is finished by a separate
    --continue, started in the different command-line forms (branch named or checked out)"""
    rng = g.rng
    files = g.worktree_files()
    path = rng.choice(files) if files else None
    base_branch = g.branch()
    yield from fam_feature_branch(g, 1, path, rewritten=True)
    yield g.git("checkout", "-q", base_branch)
    stop = rng.choice(["conflict", "conflict", "edit"])
    yield upstream_change(g, "conflict" if stop == "conflict" else rng.choice(["above", "below", "other_file"]), path)
    yield from g.commit_all()
    form = rng.choice(["checked_out", "branch_arg", "onto_branch_arg"])
    g.ex.probe("rebase_stop." + form)
    env = g.seq_env("edit:0") if stop == "edit" else None
    extra = ["-i"] if stop == "edit" else []
    kw = {"env": env, "plan": "edit:0"} if env else {}
    if form == "checked_out":
        yield g.git("checkout", "-q", "feat")
        yield g.git("rebase", *extra, base_branch, rewrite=True, **kw)
    elif form == "branch_arg":
        yield g.git("rebase", *extra, base_branch, "feat", rewrite=True, **kw)
    else:
        yield g.git("rebase", *extra, "--onto", base_branch, "feat~1", "feat", rewrite=True, **kw)
    if g.in_progress() == "rebase" and not g.has_conflicts():
        yield g.git("rebase", "--continue", env={"GIT_EDITOR": "true"}, check=True)
    yield from resolve_loop(g, ["rebase", "--continue"], ["rebase", "--abort"], allow_abort=False)


def fam_cherry_pick(g):
    rng = g.rng
    files = g.worktree_files()
    path = rng.choice(files) if files else None
    base_branch = g.branch()
    n = rng.randint(1, 3)
    pos = rng.choice(["above", "below", "interleaved", "other_file", "other_file", "conflict"])
    # variant: the first attempt stops on a conflict and is given up, then something is picked and seen through
    after_abort = rng.random() < 0.25
    if after_abort:
        pos = "conflict"
    yield from fam_feature_branch(g, n, path, name="src")
    yield g.git("checkout", "-q", base_branch)
    if after_abort or rng.random() < 0.8:
        yield upstream_change(g, pos, path)
        yield from g.commit_all()
    ranged = n > 1 and rng.random() < 0.5 and not g.gated("pick_conflict_multi_commit_notes")
    if ranged:
        yield g.git("cherry-pick", "src~%d..src" % n, rewrite=True)
    else:
        yield g.git("cherry-pick", "src~%d" % rng.randint(0, n - 1), rewrite=True)
    g.ex.gen_state["aborted"] = False
    yield from resolve_loop(g, ["cherry-pick", "--continue"], ["cherry-pick", "--abort"],
                            must_abort=(after_abort or (ranged and (g.gated("pick_conflict_multi_commit_notes") or
                                                                    g.gated("rebase_conflict_multi_commit")))))
    if g.ex.gen_state.get("aborted") and not g.in_progress() and (after_abort or rng.random() < 0.8):
        # after giving up, the person picks something else (or the same commit again) and sees it through
        g.ex.probe("cherry_pick.again_after_abort")
        yield g.git("cherry-pick", "src~%d" % rng.randint(0, n - 1), rewrite=True)
        yield from resolve_loop(g, ["cherry-pick", "--continue"], ["cherry-pick", "--abort"], allow_abort=False)


def fam_amend(g):
    rng = g.rng
    yield from g.some_edits(n_ai=(1, 2), n_human=(0, 1))
    yield from g.commit_all()
    mode = rng.choice(["ai", "human", "both", "message"])
    if g.gated("amend_shift") and mode == "both":
        mode = "ai"
    if mode in ("ai", "both"):
        yield g.ai_edit(pos=rng.choice(["above_ai", "below_ai", "inside_ai", "any"]),
                        kinds=["insert", "append", "replace", "modify"] if g.gated("amend_shift") else None)
    if mode in ("human", "both"):
        if mode == "human" and g.gated("amend_shift"):
            # known finding amend-shift: a human-only change above/inside the commit's AI lines
            yield g.human_edit(kinds=["append"])
        else:
            yield g.human_edit(pos=rng.choice(["above_ai", "below_ai", "inside_ai", "any"]))
    if mode == "message":
        yield g.git("commit", "-q", "--amend", "-m", g.msg(), check=True, rewrite=True)
    else:
        yield g.git("add", "-A")
        yield g.git("commit", "-q", "--amend", "--no-edit", check=True, rewrite=True)


def fam_squash_merge(g):
    rng = g.rng
    files = g.worktree_files()
    path = rng.choice(files) if files else None
    base_branch = g.branch()
    pos = rng.choice(["above", "below", "interleaved", "other_file", "other_file"])
    yield from fam_feature_branch(g, rng.randint(1, 3), path)
    yield g.git("checkout", "-q", base_branch)
    if rng.random() < 0.6:
        yield upstream_change(g, pos, path)
        yield from g.commit_all()
    yield g.git("merge", "--squash", "feat", rewrite=True)
    if g.has_conflicts():
        # the squash merge failed (exit 1) and is finished by hand
        g.ex.probe("squash.conflict")
        yield {"op": "resolve", "strategy": "union", "dt": g.dt(), "relax": "one_sided"}
    yield g.git("commit", "-q", "-m", g.msg(), check=True)


def fam_merge(g):
    rng = g.rng
    files = g.worktree_files()
    path = rng.choice(files) if files else None
    base_branch = g.branch()
    pos = rng.choice(["above", "below", "other_file", "other_file"])
    yield from fam_feature_branch(g, rng.randint(1, 2), path)
    yield g.git("checkout", "-q", base_branch)
    if rng.random() < 0.6:
        yield upstream_change(g, pos, path)
        yield from g.commit_all()
    yield g.git("merge", "-q", "--no-edit", "feat", check=True, rewrite=True)
    if g.in_progress() == "merge":
        if rng.random() < 0.4:
            yield g.git("merge", "--abort", aborts=True)
        else:
            yield {"op": "resolve", "strategy": "union", "dt": g.dt()}
            yield g.git("commit", "-q", "--no-edit", check=True)


def fam_reset_recommit(g):
    rng = g.rng
    n = rng.randint(1, 3)
    for _ in range(n):
        yield from g.some_edits(n_ai=(1, 2), n_human=(0, 1),
                                human_kinds=(["insert", "delete", "append"]
                                             if g.gated("reset_multi_commit") else None))
        yield from g.commit_all()
    k = 1 if g.gated("reset_multi_commit") else rng.randint(1, n)
    mode = rng.choice(["--soft", "--mixed"])
    if rng.random() < 0.4:
        # uncommitted AI work is lying around when the reset happens (often in a file the un-done commits did not touch)
        g.ex.probe("reset.with_pending_work")
        yield g.ai_edit(kinds=["insert", "append"], new_file=rng.random() < 0.2)
    detached = rng.random() < 0.25
    if detached:
        g.ex.probe("reset.detached_head")
        yield g.git("checkout", "-q", "--detach")
    yield g.git("reset", "-q", mode, "HEAD~%d" % k, rewrite=True)
    if rng.random() < 0.35:
        # re-commit in pieces (by file)
        files = [f for f in g.worktree_files()]
        rng.shuffle(files)
        for f in files[:max(1, len(files) // 2)]:
            yield g.git("add", "--", f)
        yield g.git("commit", "-q", "-m", g.msg(), check=True)
    yield from g.commit_all()


def fam_stash(g):
    rng = g.rng
    files = g.worktree_files()
    path = rng.choice(files) if files else None
    pos = g.choose_pos(["none", "above", "below", "interleaved", "other_file"], "stash_pop_shift",
                       banned=("above", "interleaved"))
    last = None
    for op in g.some_edits(n_ai=(1, 2), n_human=(0, 1), path=path):
        last = op
        yield op
    if g.gated("hooks_stash_apply") and last is not None and last["who"] == HUMAN:
        # known finding: hooks mode does not checkpoint before a stash, a trailing human edit is missed
        yield g.ai_edit(path=path, kinds=["insert", "append"])
    yield g.git("stash", "push", "-q", rewrite=True)
    if pos != "none":
        yield upstream_change(g, pos, path, who=HUMAN)
        yield from g.commit_all()
    yield g.git("stash", "pop" if g.gated("hooks_stash_apply") else rng.choice(["pop", "apply"]), "-q", rewrite=True)
    if g.has_conflicts():
        # the pop failed (exit 1): what it would have restored is no longer "pending attribution"
        g.ex.probe("stash.pop_conflict")
        yield {"op": "resolve", "strategy": "union", "dt": g.dt(), "relax": "one_sided"}
        yield g.git("reset", "-q")
    yield from g.commit_all()


def fam_stash_two(g):
    """two stash entries (AI work and a person's work on the same lines of one file), a commit in between, then one
    of them is restored under one of the names git accepts for a stash entry"""
    rng = g.rng
    files = g.worktree_files()
    path = rng.choice(files) if files else None
    ai_first = rng.random() < 0.5
    for k in range(2):
        if (k == 0) == ai_first:
            yield g.ai_edit(path=path, kinds=["insert"], pos="top")
        else:
            yield g.human_edit(path=path, kinds=["insert"], pos="top", pre_ckpt=True, max_block=4)
        yield g.git("stash", "push", "-q", rewrite=True)
    yield g.human_edit(new_file=True)
    yield from g.commit_all()
    n = rng.choice([0, 1, 1])
    sha = g.w.raw_git(g.repo, "rev-parse", "stash@{%d}" % n).out.strip()
    name = rng.choice(["stash@{%d}" % n, str(n), "refs/stash@{%d}" % n, sha] if n else ["stash@{0}", "0", None, "refs/stash@{0}"])
    g.ex.probe("stash_two.name." + ("sha" if name == sha else "none" if name is None else "index" if name.isdigit() else
                                    "refs" if name.startswith("refs/") else "stash_at"))
    verb = "pop" if name != sha else "apply"
    yield g.git("stash", verb, "-q", *([name] if name else []), rewrite=True)
    if g.has_conflicts():
        yield {"op": "resolve", "strategy": "union", "dt": g.dt(), "relax": "one_sided"}
        yield g.git("reset", "-q")
    yield from g.commit_all()
    if rng.random() < 0.5:
        # and the other entry afterwards: both inserted at the top of the file, so this one may stop on a conflict
        yield g.git("stash", "pop", "-q", rewrite=True)
        if g.has_conflicts():
            g.ex.probe("stash.pop_conflict")
            yield {"op": "resolve", "strategy": "union", "dt": g.dt(), "relax": "one_sided"}
            yield g.git("reset", "-q")
            yield g.git("stash", "drop", "-q")
        yield from g.commit_all()


def fam_staged_mix(g):
    """an agent works in one file; a person then edits that file and another one that no agent has touched, without
    any checkpoint, and stages both; the agent goes on in the second file; commit"""
    rng = g.rng
    files = g.worktree_files()
    while len(files) < 2:
        yield g.human_edit(new_file=True)
        yield from g.commit_all()
        files = g.worktree_files()
    f, h = rng.sample(files, 2)
    yield g.ai_edit(path=f, kinds=["insert", "append", "replace"])
    yield g.human_edit(path=f, kinds=["insert", "append", "modify"], pre_ckpt=False)
    yield g.human_edit(path=h, kinds=["insert", "append"], pre_ckpt=False)
    if rng.random() < 0.8:
        yield g.git("add", "--", f, h) if rng.random() < 0.5 else g.git("add", "-A")
    if rng.random() < 0.5:
        yield g.git("status", "--porcelain")
    yield g.ai_edit(path=h, kinds=["insert", "append"])
    if rng.random() < 0.4:
        yield g.human_edit(path=rng.choice([f, h]), kinds=["insert", "append"], pre_ckpt=rng.random() < 0.5)
    yield from g.commit_all()


def fam_pick_during_rebase(g):
    """an interactive rebase stops for editing; while it is stopped the person cherry-picks a fix from another branch
    (or starts a cherry-pick that conflicts and gives it up); then the rebase is continued"""
    rng = g.rng
    files = g.worktree_files()
    path = rng.choice(files) if files else None
    base = g.branch()
    yield g.git("checkout", "-q", "-b", "fix")
    yield g.ai_edit(new_file=True)
    yield from g.commit_all()
    yield g.git("checkout", "-q", base)
    yield from fam_feature_branch(g, 2, path, rewritten=True, distinct_files=rng.random() < 0.5)
    yield g.git("checkout", "-q", base)
    # (upstream stays out of the branch's files: a conflict stop later on would have to be aborted, and the note the
    # cherry-pick wrote in between is a legitimate change that the abort oracle cannot tell from damage)
    yield g.human_edit(path="upstream/u%d.txt" % g.ex.fresh_id(), kinds=["insert"])
    yield from g.commit_all()
    yield g.git("checkout", "-q", "feat")
    plan = rng.choice(["edit:0", "edit:0", "edit:1"])
    yield g.git("rebase", "-i", base, env=g.seq_env(plan), rewrite=True, plan=plan)
    if g.in_progress() == "rebase" and not g.has_conflicts():
        g.ex.probe("pick_during_rebase.stopped")
        yield g.git("cherry-pick", "fix", rewrite=True)
        if g.has_conflicts():
            yield g.git("cherry-pick", "--abort", aborts=True)
        yield g.git("rebase", "--continue", env={"GIT_EDITOR": "true"}, check=True)
    g.ex.gen_state["aborted"] = False
    if g.in_progress():
        # a further stop (name clash of two new files, a second edit step): given up, without the abort oracle - the
        # note the cherry-pick wrote in between is a legitimate change it could not tell from damage
        yield g.git("rebase", "--abort")


def fam_switch_carry(g):
    rng = g.rng
    yield from g.some_edits(n_ai=(1, 2), n_human=(0, 1))
    how = rng.choice(["switch_c", "checkout_b", "existing"])
    if how == "switch_c":
        yield g.git("switch", "-q", "-c", "carry")
    elif how == "checkout_b":
        yield g.git("checkout", "-q", "-b", "carry")
    else:
        yield g.git("branch", "carry")
        yield g.git("checkout", "-q", "carry")
    if rng.random() < 0.5:
        yield from g.some_edits(n_ai=(0, 1), n_human=(0, 1))
    yield from g.commit_all()


def fam_noop_failures(g):
    """operations that must change nothing: dry run, failing commands"""
    rng = g.rng
    yield from g.some_edits(n_ai=(1, 2), n_human=(0, 1))
    choice = rng.choice(["dry", "bad_rebase", "bad_pick", "bad_merge", "empty_amend_dry"])
    if choice == "dry":
        yield g.git("add", "-A")
        yield g.git("commit", "--dry-run", "-m", "x", aborts=True)
    elif choice == "bad_rebase":
        yield g.git("rebase", "no-such-ref", aborts=True)
    elif choice == "bad_pick":
        yield g.git("cherry-pick", "no-such-ref", aborts=True)
    elif choice == "bad_merge":
        yield g.git("merge", "--squash", "no-such-ref", aborts=True)
    else:
        yield g.git("add", "-A")
        yield g.git("commit", "--amend", "--dry-run", "--no-edit", aborts=True)
    yield from g.commit_all()


def fam_plain_commits(g):
    for _ in range(g.rng.randint(1, 3)):
        yield from g.some_edits(n_ai=(1, 3), n_human=(0, 2))
        yield from g.commit_all()


def fam_destructive(g):
    """discard-then-rewrite: pending AI work (checkpoints and/or INITIAL left by a partial commit)
    is thrown away by a destructive command, then a person writes lines at the same places"""
    rng = g.rng
    # two files with AI work
    files = g.worktree_files()
    while len(files) < 2:
        yield g.ai_edit(new_file=True)
        files = g.worktree_files()
    f1, f2 = rng.sample(files, 2)
    yield g.ai_edit(path=f1, kinds=["insert", "append", "replace"])
    yield g.ai_edit(path=f2, kinds=["insert", "append", "replace"])
    pending = rng.choice(["checkpoints", "initial", "initial"])
    if pending == "initial":
        # partial commit: only an unrelated third change, so both files stay pending in INITIAL
        yield g.edit(HUMAN, new_file=True)
        third = [f for f in g.worktree_files() if f not in files]
        if third:
            yield g.git("add", "--", third[0])
            yield g.git("commit", "-q", "-m", g.msg(), check=True)
    if rng.random() < 0.3:
        yield g.git("branch", "other")
    cmds = ["checkout_path", "checkout_head_path", "restore", "restore_staged_worktree", "reset_hard",
            "checkout_f", "switch_discard", "switch_f", "stash_drop", "clean_checkout_dot"]
    if pending == "initial" and g.gated("initial_outlives_discard"):
        # known finding: INITIAL is not cleared by restore / stash push / checkout -- .
        cmds = ["checkout_path", "checkout_head_path", "reset_hard", "checkout_f", "switch_discard", "switch_f"]
    cmd = rng.choice(cmds)
    g.ex.probe("destructive." + cmd)
    if cmd == "checkout_path":
        yield g.git("checkout", "--", f1, destructive=True)
    elif cmd == "checkout_head_path":
        yield g.git("checkout", "HEAD", "--", f1, destructive=True)
    elif cmd == "restore":
        yield g.git("restore", f1, destructive=True)
    elif cmd == "restore_staged_worktree":
        yield g.git("restore", "--staged", "--worktree", "--source=HEAD", f1, destructive=True)
    elif cmd == "reset_hard":
        yield g.git("reset", "-q", "--hard", destructive=True)
    elif cmd == "checkout_dot" or cmd == "clean_checkout_dot":
        yield g.git("checkout", "--", ".", destructive=True)
    elif cmd in ("checkout_f", "switch_discard", "switch_f"):
        if not g.head("refs/heads/other"):
            yield g.git("branch", "other")
        # make the other branch differ from HEAD so that HEAD really moves
        yield g.git("commit", "-q", "--allow-empty", "-m", g.msg())
        flag = {"checkout_f": ["checkout", "-q", "-f"], "switch_discard": ["switch", "-q", "--discard-changes"],
                "switch_f": ["switch", "-q", "-f"]}[cmd]
        yield g.git(*flag, "other", destructive=True)
    elif cmd == "stash_drop":
        yield g.git("stash", "push", "-q")
        yield g.git("stash", "drop", "-q", destructive=True)
    # a person now writes at the same places
    for f in (f1, f2):
        if g.w.read(g.repo, f) is not None:
            yield g.human_edit(path=f, kinds=["insert", "insert", "replace", "append"],
                               pos=rng.choice(["top", "any", "bottom"]), max_block=5,
                               pre_ckpt=rng.random() < 0.5)
    yield from g.commit_all()


def hunks_between(old, new):
    """[(old_start, old_end, new_start, new_end)] line-index hunks turning old into new"""
    import difflib
    a = (old or "").splitlines(keepends=True)
    b = (new or "").splitlines(keepends=True)
    sm = difflib.SequenceMatcher(None, a, b, autojunk=False)
    return a, b, [(i1, i2, j1, j2) for tag, i1, i2, j1, j2 in sm.get_opcodes() if tag != "equal"]


def split_insertions(rng, hunks, p=0.5):
    """what `git add -p` offers with 's' / 'e': a block of inserted lines can be staged in part.  Splits
    pure-insertion hunks of two or more lines at a drawn point into two pure-insertion sub-hunks"""
    out = []
    for (i1, i2, j1, j2) in hunks:
        if i1 == i2 and j2 - j1 >= 2 and rng.random() < p:
            m = rng.randint(j1 + 1, j2 - 1)
            out.append((i1, i2, j1, m))
            out.append((i1, i2, m, j2))
        else:
            out.append((i1, i2, j1, j2))
    return out


def apply_hunks(a, b, hunks, chosen):
    out = []
    pos = 0
    for k, (i1, i2, j1, j2) in enumerate(hunks):
        out.extend(a[pos:i1])
        if k in chosen:
            out.extend(b[j1:j2])
        else:
            out.extend(a[i1:i2])
        pos = i2
    out.extend(a[pos:])
    return "".join(out)


def fam_partial_blocks(g):
    """several separate AI insertion blocks in one file; commit some of the blocks by hunk,
    leaving two or more pure-insertion hunks uncommitted; then commit the rest"""
    rng = g.rng
    files = [f for f in g.worktree_files() if len(split_lines(g.w.read(g.repo, f) or "")) >= 3]
    if not files:
        yield g.human_edit(new_file=True)
        yield from g.commit_all()
        files = g.worktree_files()
    f = rng.choice(files)
    nblocks = rng.randint(3, 5)
    for b in range(nblocks):
        who = g.pick_session() if rng.random() < 0.85 else HUMAN
        yield g.edit(who, path=f, kinds=["insert"], pos=rng.choice(["top", "bottom", "any", "any"]),
                     max_block=rng.choice([1, 2, 4, 6]))
    for round_ in range(rng.randint(1, 3)):
        head = g.w.raw_git(g.repo, "show", ":" + f)
        old = head.out if head.code == 0 else ""
        new = g.w.read(g.repo, f)
        a, b, hunks = hunks_between(old, new)
        hunks = split_insertions(rng, hunks, 0.3)
        if len(hunks) < 2:
            break
        chosen = set(rng.sample(range(len(hunks)), rng.randint(1, max(1, len(hunks) - 2))))
        if g.gated("partial_unstaged_nonpure_hunk"):
            chosen |= {k for k, h in enumerate(hunks) if h[0] != h[1]}
        g.ex.probe("partial.blocks_split")
        yield {"op": "stage", "path": f, "content": apply_hunks(a, b, hunks, chosen), "dt": g.dt()}
        yield g.git("commit", "-q", "-m", g.msg(), check=True)
    yield from g.commit_all()


def fam_partial(g):
    """AI and human changes in several files / hunks, committed in pieces"""
    rng = g.rng
    if rng.random() < 0.35:
        yield from fam_partial_blocks(g)
        return
    n_edits = rng.randint(2, 6)
    for k in range(n_edits):
        new_file = rng.random() < 0.2
        if rng.random() < 0.7:
            yield g.ai_edit(new_file=new_file, kinds=None if not new_file else ["insert"],
                            pos=rng.choice(["top", "bottom", "any", "any"]))
        else:
            yield g.human_edit(new_file=new_file, pos=rng.choice(["top", "bottom", "any"]))
    for round_ in range(rng.randint(1, 4)):
        r = g.w.raw_git(g.repo, "status", "--porcelain", "-z")
        changed = sorted(set(x[3:] for x in r.out.split("\0") if x and len(x) > 3))
        changed = [c for c in changed if g.w.read(g.repo, c) is not None]
        if not changed:
            break
        how = rng.choice(["files", "files", "commit_path", "hunks", "hunks", "commit_a"])
        g.ex.probe("partial." + how)
        if how == "files":
            for f in rng.sample(changed, rng.randint(1, max(1, len(changed) - 1))):
                yield g.git("add", "--", f)
            yield g.git("commit", "-q", "-m", g.msg(), check=True)
        elif how == "commit_path":
            f = rng.choice(changed)
            tracked = g.w.raw_git(g.repo, "ls-files", "--error-unmatch", "--", f).code == 0
            if not tracked:
                yield g.git("add", "--", f)
            yield g.git("commit", "-q", "-m", g.msg(), "--", f, check=True)
        elif how == "commit_a":
            yield g.git("commit", "-q", "-a", "-m", g.msg(), check=True)
        else:
            f = rng.choice(changed)
            head = g.w.raw_git(g.repo, "show", ":" + f)
            old = head.out if head.code == 0 else ""
            new = g.w.read(g.repo, f)
            a, b, hunks = hunks_between(old, new)
            hunks = split_insertions(rng, hunks, 0.5)
            if len(hunks) >= 2:
                g.ex.probe("partial.block_split_inside")
                chosen = set(rng.sample(range(len(hunks)), rng.randint(1, len(hunks) - 1)))
                if g.gated("partial_unstaged_nonpure_hunk"):
                    # known finding: what stays unstaged must be pure insertions
                    chosen |= {k for k, h in enumerate(hunks) if h[0] != h[1]}
                    if len(chosen) == len(hunks):
                        g.ex.probe("partial.hunk_split_all")
                g.ex.probe("partial.hunk_split")
                yield {"op": "stage", "path": f, "content": apply_hunks(a, b, hunks, chosen), "dt": g.dt()}
            else:
                yield g.git("add", "--", f)
            yield g.git("commit", "-q", "-m", g.msg(), check=True)
        if rng.random() < 0.4:
            # unrelated work in between
            if rng.random() < 0.5:
                yield g.ai_edit(pos=rng.choice(["top", "bottom", "any"]))
            else:
                yield g.human_edit(pos=rng.choice(["top", "bottom", "any"]))
    yield from g.commit_all()


def fam_human_overwrites_ai(g):
    """an agent writes a block; a person removes every line of it (and changes something else, so the
    file still differs from HEAD), keeps editing at the same place, and commits"""
    rng = g.rng
    files = [f for f in g.worktree_files() if len(split_lines(g.w.read(g.repo, f) or "")) >= 2]
    if not files:
        yield g.human_edit(new_file=True)
        yield from g.commit_all()
        files = g.worktree_files()
    f = rng.choice(files)
    before = g.w.read(g.repo, f)
    yield g.ai_edit(path=f, kinds=["insert", "append"], pos=rng.choice(["top", "any", "bottom"]), max_block=3)
    after = g.w.read(g.repo, f)
    # the person's first edit: back to the text before the agent + one new line of their own
    eol, fnl = gen.file_style(before)
    lines = split_lines(before)
    pos = rng.randint(0, len(lines))
    lines[pos:pos] = [gen.new_line(rng, g.ex)]
    yield {"op": "edit", "who": HUMAN, "files": {f: gen.join_lines(lines, eol, True)}, "dt": g.dt(), "pre_ckpt": True,
           "desc": {"kind": "remove_ai_block", "pos": "any", "who": HUMAN}}
    for _ in range(rng.randint(1, 2)):
        yield g.human_edit(path=f, kinds=["insert", "append"], pos=rng.choice(["top", "any", "bottom"]), max_block=4)
    yield from g.commit_all()


# ---------------------------------------------------------------------------------------
# families added in round 2 (reach measurement showed these mechanisms were never executed:
# pull hooks, checkout/switch --merge, pathspec reset, pathspec stash, revert, CI rewrite)
# ---------------------------------------------------------------------------------------

def remote_file(g, path, ref="refs/remotes/origin/main"):
    r = g.w.raw_git(g.repo, "show", "%s:%s" % (ref, path))
    return r.out if r.code == 0 else None


def remote_change(g, pos, path, who=HUMAN):
    """somebody else's commit on the remote's main, at a position class relative to `path`'s AI lines"""
    rng = g.rng
    r = g.w.raw_git(g.repo, "ls-tree", "-r", "-z", "--name-only", "refs/remotes/origin/main")
    rfiles = sorted(x for x in r.out.split("\0") if x)
    if pos == "other_file":
        others = [f for f in rfiles if f != path and remote_file(g, f) is not None and "\0" not in remote_file(g, f)]
        f = rng.choice(others) if others and rng.random() < 0.7 else "up/u%d.txt" % g.ex.fresh_id()
        kinds = ["insert", "replace", "append"]
        pcs = None
    else:
        f = path
        kinds = ["modify"] if pos == "conflict" else ["insert", "insert", "delete", "replace"]
        pcs = [{"above": "top", "below": "bottom", "conflict": "inside_ai"}.get(pos, "any")]
    old = remote_file(g, f)
    new, desc = gen.mutate(rng, g.ex, old, who, g.hz, kinds=kinds if old else ["insert"], pos_classes=pcs,
                           max_block=2 if pos == "conflict" else 4)
    return {"op": "remote_commit", "path": f, "content": new, "desc": desc, "dt": g.dt()}


def fam_pull(g):
    """git pull in its forms: fast-forward with pending AI work, --rebase of local AI commits,
    --rebase --autostash with pending work, merge"""
    rng = g.rng
    files = g.worktree_files()
    path = rng.choice(files)
    restricted = (["insert", "delete", "replace", "reindent", "append"]
                  if g.gated("rebase_human_intraline_edit") else None)
    yield from g.some_edits(n_ai=(1, 2), n_human=(0, 1), path=path)
    yield from g.commit_all()
    yield {"op": "setup_remote", "dt": g.dt()}
    variant = rng.choice(["ff_pending", "ff_pending", "ff_clean", "rebase", "rebase", "rebase_autostash",
                          "rebase_autostash", "merge"])
    g.ex.probe("pull." + variant)
    n_local = 0
    if variant in ("rebase", "rebase_autostash", "merge"):
        n_local = rng.randint(1, 2)
        for _ in range(n_local):
            anywhere = rng.random() >= 0.7
            if variant == "rebase_autostash" and g.gated("hooks_pull_autostash_abort"):
                anywhere = False      # keeps the autostash variant free of conflicts (the upstream change is in another file)
            yield from g.some_edits(n_ai=(1, 2), n_human=(0, 1), path=None if anywhere else path,
                                    human_kinds=restricted)
            yield from g.commit_all()
    pending = variant in ("ff_pending", "rebase_autostash")
    if pending:
        pos = "other_file"        # git refuses to pull over a locally modified file / autostash would conflict
    elif variant == "merge":
        pos = rng.choice(["above", "below", "other_file", "other_file"])
    else:
        pos = rng.choice(["above", "below", "interleaved", "other_file", "other_file", "conflict"])
    for _ in range(rng.randint(1, 2)):
        yield remote_change(g, pos, path)
    if pending:
        yield from g.some_edits(n_ai=(1, 2), n_human=(0, 1), path=path)
    via_config = variant in ("rebase", "rebase_autostash") and rng.random() < 0.35
    if via_config:
        # the mode comes from the configuration instead of the command line (pull.rebase accepts true / merges /
        # interactive, rebase.autoStash a boolean)
        g.ex.probe("pull.rebase_via_config")
        yield {"op": "raw", "argv": ["config", "pull.rebase", rng.choice(["true", "merges", "merges", "interactive"])], "dt": 1}
        if variant == "rebase_autostash":
            yield {"op": "raw", "argv": ["config", "rebase.autoStash", rng.choice(["true", "yes", "on"])], "dt": 1}
    if variant in ("ff_pending", "ff_clean"):
        yield g.git("pull", "-q", *rng.choice([["--ff-only"], [], ["--ff"]]), "origin", "main", rewrite=True)
    elif via_config:
        yield g.git("pull", "-q", "origin", "main", rewrite=True, env={"GIT_SEQUENCE_EDITOR": "true", "GIT_EDITOR": "true"})
    elif variant == "rebase":
        yield g.git("pull", "-q", "--rebase", "origin", "main", rewrite=True)
    elif variant == "rebase_autostash":
        yield g.git("pull", "-q", "--rebase", "--autostash", "origin", "main", rewrite=True)
    else:
        yield g.git("pull", "-q", "--no-rebase", "--no-edit", "origin", "main", rewrite=True)
    if g.in_progress() == "merge":
        yield {"op": "resolve", "strategy": "union", "dt": g.dt()}
        yield g.git("commit", "-q", "--no-edit", check=True)
    yield from resolve_loop(g, ["rebase", "--continue"], ["rebase", "--abort"],
                            must_abort=((n_local > 1 and g.gated("rebase_conflict_multi_commit"))
                                        or g.gated("pull_rebase_conflict")))
    if g.in_progress():
        return
    if g.has_conflicts():
        # the autostash could not be re-applied cleanly: finished by hand
        g.ex.probe("pull.autostash_conflict")
        yield {"op": "resolve", "strategy": "union", "dt": g.dt(), "relax": "one_sided"}
        yield g.git("reset", "-q")
    yield from g.commit_all()
    if rng.random() < 0.6:
        # publish: the wrapper pushes the notes beside the user's push
        g.ex.probe("pull.then_push")
        yield g.git("push", "-q", "origin", "HEAD:main")
        if rng.random() < 0.5:
            yield g.git("fetch", "-q", "origin")


def fam_switch_merge(g):
    """pending AI work carried to a branch that is at ANOTHER commit: plain checkout/switch when the
    branches differ in other files only, --merge / -m when they differ in the same file"""
    rng = g.rng
    files = g.worktree_files()
    path = rng.choice(files)
    base = g.branch()
    variant = rng.choice(["merge_same_file", "merge_same_file", "carry_other_file"])
    g.ex.probe("switch_merge." + variant)
    yield g.git("checkout", "-q", "-b", "other")
    if variant == "carry_other_file":
        yield upstream_change(g, "other_file", path)
    else:
        yield upstream_change(g, rng.choice(["above", "below", "above", "interleaved"]), path)
    yield from g.commit_all()
    yield g.git("checkout", "-q", base)
    yield from g.some_edits(n_ai=(1, 2), n_human=(0, 1), path=path,
                            ai_kinds=["insert", "insert", "append", "replace"])
    if variant == "carry_other_file":
        cmd = rng.choice([["checkout", "-q", "other"], ["switch", "-q", "other"]])
    else:
        cmd = rng.choice([["checkout", "-q", "--merge", "other"], ["switch", "-q", "--merge", "other"],
                          ["checkout", "-q", "-m", "other"], ["switch", "-q", "-m", "other"]])
    yield g.git(*cmd)
    if g.has_conflicts():
        g.ex.probe("switch_merge.conflict")
        if g.gated("merge_switch_conflict"):
            # known finding: INITIAL is written against the conflict-marker text; the work is given up instead
            yield g.git("reset", "-q", "--hard", destructive=True)
            return
        yield {"op": "resolve", "strategy": "union", "dt": g.dt(), "relax": "one_sided"}
        yield g.git("reset", "-q")
    if rng.random() < 0.4:
        yield from g.some_edits(n_ai=(0, 1), n_human=(0, 1))
    yield from g.commit_all()


def two_files_with_ai_work(g):
    files = g.worktree_files()
    while len(files) < 2:
        yield g.ai_edit(new_file=True)
        files = g.worktree_files()
    f1, f2 = g.rng.sample(files, 2)
    g.ex.gen_state["two_files"] = (f1, f2)
    # known finding partial_unstaged_nonpure_hunk: what a later partial commit leaves unstaged must be pure insertions
    kinds = ["insert", "append"] if g.gated("partial_unstaged_nonpure_hunk") else ["insert", "append", "replace"]
    yield g.ai_edit(path=f1, kinds=kinds)
    yield g.ai_edit(path=f2, kinds=kinds)


def fam_reset_pathspec(g):
    """mixed reset limited to a path: un-staging (git reset -- f) and un-doing one file of the last
    commit (git reset HEAD~1 -- f) while the work tree keeps the lines"""
    rng = g.rng
    yield from two_files_with_ai_work(g)
    f1, f2 = g.ex.gen_state["two_files"]
    variant = rng.choice(["unstage", "older", "older"])
    if g.gated("hooks_pathspec_reset"):
        variant = "unstage"
    g.ex.probe("reset_pathspec." + variant)
    if variant == "unstage":
        yield g.git("add", "-A")
        yield g.git("reset", "-q", "--", f1, rewrite=True)
        yield g.git("commit", "-q", "-m", g.msg(), check=True)
    else:
        yield from g.commit_all()
        if rng.random() < 0.5:
            yield g.ai_edit(path=f2, kinds=["insert", "append"])
        yield g.git("reset", "-q", "HEAD~1", "--", f1, rewrite=True)
        yield g.git("commit", "-q", "-m", g.msg(), check=True)
    yield from g.commit_all()


def fam_stash_pathspec(g):
    """git stash push -- <path>: only one file's pending AI work is stashed"""
    rng = g.rng
    yield from two_files_with_ai_work(g)
    f1, f2 = g.ex.gen_state["two_files"]
    spec = f1
    if "/" in f1:
        # the pathspec spellings people use for "everything under that directory"
        d = f1.rsplit("/", 1)[0]
        spec = rng.choice([f1, f1, d, d + "/", d + "/*"])
    g.ex.probe("stash_pathspec." + ("file" if spec == f1 else "dir"))
    yield g.git("stash", "push", "-q", "--", spec, rewrite=True)
    if rng.random() < 0.7:
        yield from g.commit_all()
    yield g.git("stash", "pop", "-q", rewrite=True)
    if g.has_conflicts():
        yield {"op": "resolve", "strategy": "union", "dt": g.dt(), "relax": "one_sided"}
        yield g.git("reset", "-q")
    yield from g.commit_all()


def fam_revert(g):
    """git revert (and revert of the revert), then a person writes at the same places.  Which
    author a re-introduced line gets is not promised by any property: one-sided workloads only"""
    rng = g.rng
    files = g.worktree_files()
    path = rng.choice(files)
    yield from g.some_edits(n_ai=(1, 2), n_human=(0, 1), path=path)
    yield from g.commit_all()
    if rng.random() < 0.5:
        yield upstream_change(g, "other_file", path)
        yield from g.commit_all()
        target = "HEAD~1"
    else:
        target = "HEAD"
    yield g.git("revert", "--no-edit", target, check=True)
    if g.in_progress():
        yield g.git("revert", "--abort", aborts=True)
        return
    if rng.random() < 0.5:
        yield g.git("revert", "--no-edit", "HEAD", check=True)
    yield g.human_edit(path=path, kinds=["insert", "replace", "append"], pos=rng.choice(["top", "any", "bottom"]))
    yield from g.commit_all()


def fam_mv_rm(g):
    """git mv / git rm of files with committed and pending AI lines, a person re-creating the old name"""
    rng = g.rng
    files = g.worktree_files()
    path = rng.choice(files)
    yield from g.some_edits(n_ai=(1, 2), n_human=(0, 1), path=path)
    if rng.random() < 0.6:
        yield from g.commit_all()
    new = "moved/m%d.txt" % g.ex.fresh_id()
    how = rng.choice(["mv", "mv", "rm", "rm_cached"])
    g.ex.probe("mv_rm." + how)
    if how == "mv":
        yield g.git("add", "-A")
        yield g.git("mv", path, new)
        if rng.random() < 0.5:
            yield g.ai_edit(path=new, kinds=["insert", "append"])
    elif how == "rm":
        yield g.git("add", "-A")
        yield g.git("rm", "-q", "-f", path, destructive=True)
    else:
        yield g.git("add", "-A")
        yield g.git("rm", "-q", "--cached", path)
    yield from g.commit_all()
    # a person re-creates the old name with their own lines
    if g.w.read(g.repo, path) is None:
        eol_lines = [gen.new_line(rng, g.ex) for _ in range(rng.randint(1, 4))]
        yield {"op": "edit", "who": HUMAN, "files": {path: gen.join_lines(eol_lines)}, "dt": g.dt(),
               "pre_ckpt": rng.random() < 0.5, "desc": {"kind": "recreate", "pos": "any", "who": HUMAN}}
        yield from g.commit_all()


def fam_ci_rewrite(g):
    """the server-side rewrite: a feature branch with AI commits is pushed (notes follow), merged on
    the server with PLAIN git as a squash or a rebase merge, and a CI clone runs
    `git-ai ci local merge` / `git-ai squash-authorship` to carry the attribution over"""
    rng = g.rng
    files = g.worktree_files()
    path = rng.choice(files)
    yield {"op": "setup_remote", "dt": g.dt()}
    n = rng.randint(1, 3)
    yield from fam_feature_branch(g, n, path, rewritten=True)
    yield g.git("push", "-q", "-u", "origin", "feat")
    pos = rng.choice(["none", "other_file", "other_file", "above", "below"])
    if pos != "none":
        yield remote_change(g, pos, path)
    how = rng.choice(["squash", "squash", "rebase"])
    if n > 1 and g.gated("ci_squash_taken_for_rebase"):
        # known finding: a squash merge of a PR with several commits is taken for a rebase merge
        how = "rebase"
    tool = rng.choice(["ci_local", "ci_local", "squash_authorship"]) if how == "squash" else "ci_local"
    g.ex.probe("ci.%s.%s" % (how, tool))
    yield {"op": "server_merge", "how": how, "head_ref": "feat", "base_ref": "main", "dt": g.dt()}
    yield {"op": "ci_run", "tool": tool, "head_ref": "feat", "base_ref": "main", "dt": g.dt(), "check_ci": True}


def fam_partial_amend(g):
    """one session edits two files; only one is committed (the other stays pending in INITIAL together
    with the session's prompt record); the second file is then added to the SAME commit with --amend,
    without any new checkpoint in between"""
    rng = g.rng
    files = g.worktree_files()
    while len(files) < 2:
        yield g.ai_edit(new_file=True)
        files = g.worktree_files()
    if g.gated("amend_drops_pending_untracked_file"):
        # known finding: an amend forgets the pending lines of a file that is still untracked
        for _ in range(4):
            tracked = set(g.w.tracked_files(g.repo))
            if len([f for f in files if f in tracked]) >= 2:
                break
            yield g.human_edit(new_file=True)
            yield from g.commit_all()
            files = g.worktree_files()
        tracked = set(g.w.tracked_files(g.repo))
        if len([f for f in files if f in tracked]) >= 2:
            files = [f for f in files if f in tracked]
    f1, f2 = rng.sample(files, 2)
    s = g.pick_session()
    kinds = ["insert", "append"] if g.gated("partial_unstaged_nonpure_hunk") else ["insert", "append", "replace"]
    yield g.edit(s, path=f1, kinds=kinds)
    yield g.edit(s, path=f2, kinds=kinds)
    yield g.git("add", "--", f1)
    yield g.git("commit", "-q", "-m", g.msg(), check=True)
    if rng.random() < 0.5:
        # the amend leaves the second file out (it stays pending through INITIAL only) and it is committed afterwards
        g.ex.probe("partial_amend.other_file_stays_pending")
        if rng.random() < 0.5:
            yield g.edit(g.pick_session(), path=f1, kinds=["insert", "append"])
            yield g.git("add", "--", f1)
            yield g.git("commit", "-q", "--amend", "--no-edit", check=True, rewrite=True)
        else:
            yield g.git("commit", "-q", "--amend", "-m", g.msg(), check=True, rewrite=True)
        yield from g.commit_all()
        return
    if rng.random() < 0.3:
        yield g.human_edit(new_file=True)
    yield g.git("add", "-A")
    yield g.git("commit", "-q", "--amend", "--no-edit", check=True, rewrite=True)


def fam_two_file_report(g):
    """one agent report covers two files; afterwards people (and agents) keep editing one file or the other, each
    edit on its own, before everything is committed"""
    rng = g.rng
    files = g.worktree_files()
    while len(files) < 2:
        yield g.human_edit(new_file=True)
        yield from g.commit_all()
        files = g.worktree_files()
    yield g.ai_edit_two_files(kinds=["insert", "append", "replace"])
    last = None
    for _ in range(rng.randint(2, 4)):
        f = rng.choice([x for x in files if x != last] or files)
        last = f
        if rng.random() < 0.75:
            yield g.human_edit(path=f, kinds=["insert", "append", "replace", "modify"])
        else:
            yield g.ai_edit(path=f, kinds=["insert", "append"])
    yield from g.commit_all()


def fam_worktree_rebases(g):
    """two linked worktrees of one repository: a rebase in the main worktree stops on a conflict; while it is
    stopped, the other worktree rebases its own branch (or commits); then the first rebase is resolved and continued"""
    rng = g.rng
    files = [f for f in g.worktree_files() if len(split_lines(g.w.read(g.repo, f) or "")) >= 2]
    if not files:
        yield g.human_edit(new_file=True, max_block=4)
        yield from g.commit_all()
        files = [f for f in g.worktree_files() if len(split_lines(g.w.read(g.repo, f) or "")) >= 1]
    path = rng.choice(files)
    base = g.branch()
    lines = split_lines(g.w.read(g.repo, path))
    i = rng.randint(0, len(lines) - 1)
    s1 = g.pick_session()
    yield g.git("checkout", "-q", "-b", "feat")
    ai_lines = lines[:i] + [gen.new_line(rng, g.ex) for _ in range(rng.randint(1, 3))] + lines[i + 1:]
    edited = {path: gen.join_lines(ai_lines)}
    # the same commit also carries AI lines far away from the line that will conflict (another file)
    extra = "wt/extra%d.txt" % g.ex.fresh_id()
    edited[extra] = gen.join_lines([gen.new_line(rng, g.ex) for _ in range(rng.randint(2, 4))])
    yield {"op": "edit", "who": s1, "files": edited, "dt": g.dt(), "dt2": 20,
           "desc": {"kind": "replace", "pos": "any", "who": "ai", "at": i}}
    yield from g.commit_all()
    if rng.random() < 0.5 and not g.gated("rebase_conflict_multi_commit"):
        yield g.ai_edit(kinds=["insert", "append"])
        yield from g.commit_all()
    # the other worktree, on its own branch, with AI work in another file
    yield {"op": "add_worktree", "name": "wt2", "branch": "side", "start": base, "dt": g.dt()}
    g2 = G(rng, g.ex, g.cfg, repo_name="wt2")
    others = [f for f in g2.worktree_files() if f != path]
    yield g2.ai_edit(path=rng.choice(others), kinds=["insert", "append"]) if others else g2.ai_edit(new_file=True)
    yield from g2.commit_all()
    # upstream: a person rewrites the same line on the base branch (the rebase of feat will stop there)
    yield g.git("checkout", "-q", base)
    hum = lines[:i] + [gen.new_line(rng, g.ex)] + lines[i + 1:]
    yield {"op": "edit", "who": HUMAN, "files": {path: gen.join_lines(hum)}, "dt": g.dt(), "pre_ckpt": True,
           "desc": {"kind": "replace", "pos": "any", "who": HUMAN, "at": i}}
    yield from g.commit_all()
    yield g.git("checkout", "-q", "feat")
    yield g.git("rebase", base, rewrite=True)
    stopped = g.in_progress() == "rebase"
    if stopped:
        g.ex.probe("worktrees.rebase_stopped")
    what = rng.choice(["rebase", "rebase", "commit", "rebase_then_commit"])
    g.ex.probe("worktrees.other." + what)
    if what.startswith("rebase"):
        yield g2.git("rebase", base, rewrite=True)
        if g2.in_progress():
            yield g2.git("rebase", "--abort", aborts=True)
    if what != "rebase":
        yield g2.ai_edit(kinds=["insert", "append"])
        yield from g2.commit_all()
    if stopped:
        yield from resolve_loop(g, ["rebase", "--continue"], ["rebase", "--abort"], allow_abort=False,
                                strategy=rng.choice(["ours", "theirs"]))
    if not g.in_progress():
        yield g.ai_edit(kinds=["insert", "append"])
        yield from g.commit_all()


FAMILIES = {
    "human_overwrites_ai": fam_human_overwrites_ai,
    "destructive": fam_destructive,
    "partial": fam_partial,
    "commits": fam_plain_commits,
    "rebase": lambda g: fam_rebase(g, "plain"),
    "rebase_onto": lambda g: fam_rebase(g, "onto"),
    "rebase_i": lambda g: fam_rebase(g, "interactive"),
    "rebase_stop": fam_rebase_stop,
    "cherry_pick": fam_cherry_pick,
    "amend": fam_amend,
    "squash_merge": fam_squash_merge,
    "merge": fam_merge,
    "reset_recommit": fam_reset_recommit,
    "stash": fam_stash,
    "switch_carry": fam_switch_carry,
    "noop_failures": fam_noop_failures,
    "pull": fam_pull,
    "switch_merge": fam_switch_merge,
    "reset_pathspec": fam_reset_pathspec,
    "stash_pathspec": fam_stash_pathspec,
    "revert": fam_revert,
    "mv_rm": fam_mv_rm,
    "ci_rewrite": fam_ci_rewrite,
    "partial_amend": fam_partial_amend,
    "two_file_report": fam_two_file_report,
    "worktree_rebases": fam_worktree_rebases,
    "stash_two": fam_stash_two,
    "staged_mix": fam_staged_mix,
    "pick_during_rebase": fam_pick_during_rebase,
}

# families whose outcome no property promises two-sidedly (a reverted-and-restored or renamed line)
ONE_SIDED_FAMILIES = ("revert", "mv_rm")


def cleanup_branches(g):
    """between two families: make sure branch names of the next family are free"""
    if g.in_progress():
        st = g.in_progress()
        yield g.git(st if st != "cherry-pick" else "cherry-pick", "--abort", aborts=True)
    cur = g.branch()
    for b in ("feat", "src", "carry", "other"):
        if g.head("refs/heads/" + b):
            if cur == b:
                yield g.git("branch", "-M", b, "was_%s_%d" % (b, g.msg_n))
            else:
                yield g.git("branch", "-M", b, "old_%s_%d" % (b, g.msg_n))
