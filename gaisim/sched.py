"""Controller for multi-process runs (DESIGN §3.4).

Every simgit invocation (git-call granularity) and every guarded `verif::point` (journal
granularity) of every simulated git-ai process connects to a Unix socket, says who it is and
blocks.  The controller waits until every live party is parked, picks ONE with the seeded
policy, releases it and waits until it parks again or exits.  Exactly one party runs at a time,
so an execution is a sequence of choices; that sequence is the schedule stored in the trace.
"""
import json
import os
import select
import socket
import subprocess
import time

STEP_CAP = 2000
STALL_S = 30.0
BLOCKED_S = 4.0      # FALLBACK only: a released activity that neither parks, ends nor exits for this long is taken to be
                     # blocked on something the controller cannot see (exact accounting below makes this rare)


class Party:
    def __init__(self, label, proc):
        self.label = label
        self.proc = proc
        self.parked = []        # [(conn, req, arrival step)]: every parked request of this process (main or helper thread)
        self.running = 1        # activities (threads) of this process that are released and have not parked / ended yet
        self.alive_threads = 0  # helper threads announced by `thread_spawn` and not yet ended
        self.joiners = 0        # activities blocked in a join (announced by `join`)
        self.blocked = False    # fallback: running count ignored until there is news from this process
        self.t_news = time.time()
        self.exited = False
        self.code = None
        self.out = b""
        self.err = b""


def point_name(req):
    if req.get("k") == "point":
        return req.get("name")
    argv = [a for a in req.get("argv", []) if not a.startswith("/")]
    words = [a for a in argv if not a.startswith("-") and "=" not in a][:2]
    return "git:" + (" ".join(words) if words else "?") + (":proxied" if req.get("proxied") else "")


def _strip(name):
    return name[:-7] if name.endswith("@thread") else name


def run_concurrent(world, commands, rng=None, choices=None, policy="random", faults=None, hold=None, hold_at=None):
    """commands: [(label, argv, cwd, extra_env)].  Returns dict(results, schedule, steps, stalled).
    `choices`: recorded schedule [[label, point], ...] to replay; missing/invalid choices fall back
    to the first parked request (recorded as such).

    Accounting is exact, not timed: a process starts with one running activity; `thread_spawn` (sent by the spawner
    before the thread exists) adds one, every parked request and every `thread_end` removes one, `join` moves the
    caller to a waiting state until the helper ends, a contended journal lock is waited for at the point `lock.wait`.
    A decision is taken only when no activity of any process is running."""
    sock_path = os.path.join(world.root, "ctl.sock")
    try:
        os.remove(sock_path)
    except OSError:
        pass
    srv = socket.socket(socket.AF_UNIX, socket.SOCK_STREAM)
    srv.bind(sock_path)
    srv.listen(64)
    srv.setblocking(False)
    parties = {}
    for label, argv, cwd, extra in commands:
        env = world.env(dict(extra or {}, GIT_AI_VERIF_SOCK=sock_path, GIT_AI_VERIF_LABEL=label))
        from .world import PREEXEC
        p = subprocess.Popen(argv, cwd=cwd, env=env, stdin=subprocess.DEVNULL, stdout=subprocess.PIPE,
                             stderr=subprocess.PIPE, start_new_session=True, preexec_fn=PREEXEC)
        parties[label] = Party(label, p)
    schedule = []
    steps = 0
    stalled = False
    # PCT-style priorities
    prio = {}
    change_points = set()
    if policy == "pct" and rng is not None:
        labels = sorted(parties)
        rng.shuffle(labels)
        prio = {l: i for i, l in enumerate(labels)}
        change_points = {rng.randint(1, 60) for _ in range(rng.randint(0, 3))}
    pending_raw = {}   # conn -> buffer
    stats = {"thread_spawn": 0}
    progress = [0]     # releases of requests that are NOT waits for a lock (a waiter re-trying is no progress)

    def reap():
        for pt in parties.values():
            if not pt.exited and pt.proc.poll() is not None:
                try:
                    o, e = pt.proc.communicate(timeout=5)
                except Exception:
                    o, e = b"", b""
                pt.out, pt.err = o or b"", e or b""
                pt.exited = True
                pt.running = 0
                pt.code = pt.proc.returncode

    def ack(s):
        try:
            s.sendall(b"go\n")
        except OSError:
            pass
        s.close()

    def accept_all(timeout):
        r, _, _ = select.select([srv] + list(pending_raw), [], [], timeout)
        for s in r:
            if s is srv:
                try:
                    c, _ = srv.accept()
                    c.setblocking(False)
                    pending_raw[c] = b""
                except OSError:
                    pass
                continue
            try:
                data = s.recv(65536)
            except OSError:
                data = b""
            if not data:
                pending_raw.pop(s, None)
                s.close()
                continue
            pending_raw[s] += data
            if b"\n" not in pending_raw[s]:
                continue
            line = pending_raw.pop(s).split(b"\n")[0]
            try:
                req = json.loads(line.decode("utf-8", "replace"))
            except ValueError:
                req = {"k": "bad", "label": ""}
            pt = parties.get(req.get("label"))
            k = req.get("k")
            if pt is None or k in ("probe", "bad"):
                ack(s)
                continue
            pt.t_news = time.time()
            pt.blocked = False
            if k == "notice":
                what = req.get("what")
                if what == "thread_spawn":
                    stats["thread_spawn"] += 1
                    pt.running += 1
                    pt.alive_threads += 1
                elif what == "thread_end":
                    pt.running = max(0, pt.running - 1)
                    pt.alive_threads = max(0, pt.alive_threads - 1)
                    if pt.alive_threads == 0 and pt.joiners:
                        pt.running += pt.joiners
                        pt.joiners = 0
                elif what == "join":
                    if pt.alive_threads > 0:
                        pt.running = max(0, pt.running - 1)
                        pt.joiners += 1
                ack(s)
                continue
            pt.parked.append((s, req, progress[0]))
            pt.running = max(0, pt.running - 1)

    t_last = time.time()
    ci = 0
    while steps < STEP_CAP:
        reap()
        live = [pt for pt in parties.values() if not pt.exited]
        if not live:
            break
        busy = [pt for pt in live if pt.running > 0 and not pt.blocked]
        if busy:
            accept_all(0.005)
            now = time.time()
            if any(pt.parked for pt in live):
                for pt in busy:
                    if now - max(pt.t_news, t_last) > BLOCKED_S:
                        # fallback: waiting for something the controller cannot see
                        pt.blocked = True
                        schedule.append([pt.label, "<blocked>"])
            if now - t_last > STALL_S:
                stalled = True
                break
            continue
        # (two activities of one process may park in either order while both run: order them by what they ask for)
        allreq = [(pt, c, r, at) for pt in sorted(live, key=lambda p: p.label)
                  for (c, r, at) in sorted(pt.parked, key=lambda x: (point_name(x[1]) or "", json.dumps(x[1].get("argv") or []),
                                                                     x[1].get("occ") or 0))]
        if not allreq:
            accept_all(0.005)
            if time.time() - t_last > STALL_S:
                stalled = True
                break
            continue
        # a request waiting for a lock becomes eligible again once somebody who is NOT waiting for a lock has moved since
        # it parked (two waiters waking each other is not progress: under PCT they would starve the holder)
        parked = [x for x in allreq if point_name(x[2]) != "lock.wait" or x[3] < progress[0]] or allreq
        if hold:
            # start constraints of the scenario: a party named in `hold` stays parked until another party has been
            # released at a point whose name ends with the given suffix (e.g. its proxied git command)
            def released(lbl, suffix):
                return any(l == lbl and _strip(p).endswith(suffix) for l, p in schedule)
            eligible = [x for x in parked if x[0].label not in hold or released(*hold[x[0].label])]
            parked = eligible or parked
        if hold_at:
            # point-specific start constraints: a request of party L at a point ending with `suffix` stays parked until
            # party `other` has exited (e.g. "the commit itself runs only after the agent's report has completed")
            def blocked(x):
                c = hold_at.get(x[0].label)
                return bool(c) and (point_name(x[2]) or "").endswith(c[0]) and c[1] in parties and not parties[c[1]].exited
            free = [x for x in parked if not blocked(x)]
            if free or any(pt.running for pt in live):
                parked = free
            if not parked:
                accept_all(0.005)
                if time.time() - t_last > STALL_S:
                    stalled = True
                    break
                continue
        # ---- decision
        pick = None
        while choices is not None and ci < len(choices) and choices[ci][1] == "<blocked>":
            ci += 1
        if choices is not None and ci < len(choices):
            want_l, want_p = choices[ci][0], _strip(choices[ci][1])
            pick = next((x for x in allreq if x[0].label == want_l and point_name(x[2]) == want_p), None) or \
                next((x for x in parked if x[0].label == want_l), None)
        ci += 1
        if pick is None:
            if choices is not None or rng is None:
                pick = parked[0]
            else:
                labels = sorted({x[0].label for x in parked})
                if policy == "pct":
                    if steps in change_points:
                        lo = min(prio.values()) - 1
                        prio[max(labels, key=lambda l: prio[l])] = lo
                    lab = max(labels, key=lambda l: prio[l])
                elif policy == "stale":
                    # prefer the party that has just read a journal (opens the read-modify-write window wider)
                    fresh = sorted({x[0].label for x in parked
                                    if not (point_name(x[2]) or "").endswith(("after_read", "before_write"))})
                    lab = rng.choice(fresh) if fresh and rng.random() < 0.8 else rng.choice(labels)
                else:
                    lab = rng.choice(labels)
                cands = [x for x in parked if x[0].label == lab]
                pick = cands[0] if len(cands) == 1 else rng.choice(cands)
        pt_, conn_, req_, _at = pick
        verdict = "go"
        if faults:
            verdict = faults.get((pt_.label, point_name(req_), None), "go")
        schedule.append([pt_.label, point_name(req_)])
        try:
            conn_.sendall((verdict + "\n").encode())
        except OSError:
            pass
        conn_.close()
        pt_.parked = [x for x in pt_.parked if x[0] is not conn_]
        pt_.running += 1
        pt_.t_news = time.time()
        steps += 1
        if point_name(req_) != "lock.wait":
            progress[0] += 1
        t_last = time.time()
    if (stalled or steps >= STEP_CAP) and os.environ.get("GAISIM_SCHED_DEBUG"):
        import sys
        for pt in parties.values():
            sys.stderr.write("SCHED-STALL %s exited=%s running=%s blocked=%s threads=%s joiners=%s parked=%s\n" % (
                pt.label, pt.exited, pt.running, pt.blocked, pt.alive_threads, pt.joiners,
                [point_name(r) for _c, r, _a in pt.parked]))
        sys.stderr.write("SCHED-STALL steps=%d tail=%s\n" % (steps, schedule[-6:]))
    # cleanup
    for pt in parties.values():
        if not pt.exited:
            try:
                os.killpg(pt.proc.pid, 9)
            except OSError:
                pass
            try:
                pt.out, pt.err = pt.proc.communicate(timeout=5)
            except Exception:
                pass
            pt.code = pt.proc.returncode
            pt.exited = True
        for c, _r, _a in pt.parked:
            c.close()
    for s in list(pending_raw):
        s.close()
    srv.close()
    try:
        os.remove(sock_path)
    except OSError:
        pass
    return {"results": {l: {"code": pt.code, "out": pt.out.decode("utf-8", "replace"), "err": pt.err.decode("utf-8", "replace")}
                        for l, pt in parties.items()},
            "schedule": schedule, "steps": steps, "stalled": stalled or steps >= STEP_CAP,
            "stats": dict(stats, lock_wait=sum(1 for _l, p in schedule if p == "lock.wait"),
                          blocked_fallback=sum(1 for _l, p in schedule if p == "<blocked>"))}
