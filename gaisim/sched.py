"""Controller for multi-process runs (DESIGN §3.4).

Every simgit invocation (git-call granularity) and every guarded `verif::point` (journal
granularity) of every simulated git-ai process connects to a Unix socket, says who it is and
blocks.  The controller waits until every live party is parked, picks ONE with the seeded
policy, releases it and waits until it parks again or exits.  Exactly one party runs at a time,
so an execution is a sequence of choices; that sequence is the schedule stored in the trace.
"""
import json
import os
import select
import socket
import subprocess
import time

STEP_CAP = 2000
STALL_S = 20.0
BLOCKED_S = 1.5      # a released party that neither parks nor exits for this long is waiting for a lock
THREAD_QUIET_S = 1.0  # a released helper thread that does not come back for this long has finished


class Party:
    def __init__(self, label, proc):
        self.label = label
        self.proc = proc
        self.conn = None        # pending (parked) connection
        self.req = None
        self.running = True     # released / not yet parked
        self.exited = False
        self.code = None
        self.out = b""
        self.err = b""
        self.extra = []         # parked requests of further threads of the same process: [(conn, req)]
        self.thread_inflight = 0   # released helper-thread requests that have not come back yet
        self.t_thread = 0.0


def point_name(req):
    if req.get("k") == "point":
        return req.get("name")
    argv = [a for a in req.get("argv", []) if not a.startswith("/")]
    words = [a for a in argv if not a.startswith("-") and "=" not in a][:2]
    return "git:" + (" ".join(words) if words else "?") + (":proxied" if req.get("proxied") else "")


def run_concurrent(world, commands, rng=None, choices=None, policy="random", faults=None, hold=None):
    """commands: [(label, argv, cwd, extra_env)].  Returns dict(results, schedule, steps, stalled).
    `choices`: recorded schedule [[label, point], ...] to replay; missing/invalid choices fall back
    to the first parked party (recorded as such)."""
    sock_path = os.path.join(world.root, "ctl.sock")
    try:
        os.remove(sock_path)
    except OSError:
        pass
    srv = socket.socket(socket.AF_UNIX, socket.SOCK_STREAM)
    srv.bind(sock_path)
    srv.listen(64)
    srv.setblocking(False)
    parties = {}
    for label, argv, cwd, extra in commands:
        env = world.env(dict(extra or {}, GIT_AI_VERIF_SOCK=sock_path, GIT_AI_VERIF_LABEL=label))
        p = subprocess.Popen(argv, cwd=cwd, env=env, stdin=subprocess.DEVNULL, stdout=subprocess.PIPE,
                             stderr=subprocess.PIPE, start_new_session=True)
        parties[label] = Party(label, p)
    schedule = []
    steps = 0
    stalled = False
    # PCT-style priorities
    prio = {}
    change_points = set()
    if policy == "pct" and rng is not None:
        labels = sorted(parties)
        rng.shuffle(labels)
        prio = {l: i for i, l in enumerate(labels)}
        change_points = {rng.randint(1, 60) for _ in range(rng.randint(0, 3))}
    pending_raw = {}   # conn -> buffer

    def reap():
        for pt in parties.values():
            if not pt.exited and pt.proc.poll() is not None:
                # drain
                try:
                    o, e = pt.proc.communicate(timeout=5)
                except Exception:
                    o, e = b"", b""
                pt.out, pt.err = o or b"", e or b""
                pt.exited = True
                pt.running = False
                pt.code = pt.proc.returncode

    def accept_all(timeout):
        r, _, _ = select.select([srv] + list(pending_raw), [], [], timeout)
        for s in r:
            if s is srv:
                try:
                    c, _ = srv.accept()
                    c.setblocking(False)
                    pending_raw[c] = b""
                except OSError:
                    pass
            else:
                try:
                    data = s.recv(65536)
                except OSError:
                    data = b""
                if not data:
                    pending_raw.pop(s, None)
                    s.close()
                    continue
                pending_raw[s] += data
                if b"\n" in pending_raw[s]:
                    line = pending_raw.pop(s).split(b"\n")[0]
                    try:
                        req = json.loads(line.decode("utf-8", "replace"))
                    except ValueError:
                        req = {"k": "bad", "label": ""}
                    pt = parties.get(req.get("label"))
                    if pt is None or req.get("k") == "probe":
                        try:
                            s.sendall(b"go\n")
                        except OSError:
                            pass
                        s.close()
                    elif pt.conn is not None:
                        # another thread of the same process (e.g. the notes sync beside the user's fetch / push):
                        # parked as well and scheduled like a party of its own
                        pt.extra.append((s, req))
                        if pt.thread_inflight > 0:
                            pt.thread_inflight -= 1
                    elif pt.thread_inflight > 0 and not pt.running:
                        # the helper thread that was released last comes back with its next call
                        pt.extra.append((s, req))
                        pt.thread_inflight -= 1
                    else:
                        pt.conn, pt.req, pt.running = s, req, False
                        pt.blocked = False

    t_last = time.time()
    ci = 0
    while steps < STEP_CAP:
        reap()
        live = [pt for pt in parties.values() if not pt.exited]
        if not live:
            break
        for pt in live:
            # a released helper thread that stays silent while its process has other parked requests has finished
            if pt.thread_inflight > 0 and time.time() - pt.t_thread > THREAD_QUIET_S and (pt.conn is not None or pt.extra):
                pt.thread_inflight = 0
        if any(pt.thread_inflight > 0 for pt in live):
            accept_all(0.005)
            continue
        if any(pt.running and not getattr(pt, "blocked", False) for pt in live):
            accept_all(0.005)
            if time.time() - t_last > BLOCKED_S and any(pt.conn is not None for pt in live):
                # the released party is blocked on a lock that a parked party holds: it stays
                # runnable-in-waiting and the controller moves on to the parked ones
                for pt in live:
                    if pt.running:
                        pt.blocked = True
                        schedule.append([pt.label, "<blocked>"])
            if time.time() - t_last > STALL_S:
                stalled = True
                break
            continue
        parked = sorted((pt for pt in live if pt.conn is not None or pt.extra), key=lambda p: p.label)
        if hold:
            # start constraints of the scenario: a party named in `hold` stays parked until another party has been
            # released at a point whose name ends with the given suffix (e.g. its proxied git command)
            def released(lbl, suffix):
                return any(l == lbl and p.endswith(suffix) for l, p in schedule)
            eligible = [pt for pt in parked if pt.label not in hold or released(*hold[pt.label])]
            if eligible or not any(pt.running for pt in live):
                parked = eligible or parked
        if not parked:
            accept_all(0.005)
            if time.time() - t_last > STALL_S:
                stalled = True
                break
            continue
        # ---- decision
        pick = None
        while choices is not None and ci < len(choices) and choices[ci][1] == "<blocked>":
            ci += 1
        if choices is not None and ci < len(choices):
            want = choices[ci][0]
            pick = next((pt for pt in parked if pt.label == want), None)
        ci += 1
        if pick is None:
            if choices is not None or rng is None:
                pick = parked[0]
            elif policy == "pct":
                if steps in change_points:
                    lo = min(prio.values()) - 1
                    prio[max(parked, key=lambda p: prio[p.label]).label] = lo
                pick = max(parked, key=lambda p: prio[p.label])
            elif policy == "stale":
                # prefer the party that has just read a journal (opens the read-modify-write window wider)
                others = [pt for pt in parked if not ((pt.req or {}).get("name") or "").endswith(("after_read", "before_write"))]
                pick = rng.choice(others) if others and rng.random() < 0.8 else rng.choice(parked)
            else:
                pick = rng.choice(parked)
        # which parked request of that process: the main one, or one of its helper threads
        cands = ([("main", pick.conn, pick.req)] if pick.conn is not None else []) + \
            [("thread", c, r) for c, r in pick.extra]
        which = None
        if choices is not None and ci - 1 < len(choices):
            wantp = choices[ci - 1][1]
            which = next((x for x in cands if point_name(x[2]) + ("@thread" if x[0] == "thread" else "") == wantp), None)
        if which is None:
            which = cands[0] if (choices is not None or rng is None or len(cands) == 1) else rng.choice(cands)
        kind_, conn_, req_ = which
        verdict = "go"
        if faults:
            verdict = faults.get((pick.label, point_name(req_), None), "go")
        schedule.append([pick.label, point_name(req_) + ("@thread" if kind_ == "thread" else "")])
        try:
            conn_.sendall((verdict + "\n").encode())
        except OSError:
            pass
        conn_.close()
        if kind_ == "thread":
            pick.extra = [(c, r) for c, r in pick.extra if c is not conn_]
            pick.thread_inflight += 1
            pick.t_thread = time.time()
        else:
            pick.conn, pick.req, pick.running = None, None, True
        steps += 1
        t_last = time.time()
    # cleanup
    for pt in parties.values():
        if not pt.exited:
            try:
                os.killpg(pt.proc.pid, 9)
            except OSError:
                pass
            try:
                pt.out, pt.err = pt.proc.communicate(timeout=5)
            except Exception:
                pass
            pt.code = pt.proc.returncode
            pt.exited = True
        if pt.conn is not None:
            pt.conn.close()
        for c, _r in pt.extra:
            c.close()
    for s in list(pending_raw):
        s.close()
    srv.close()
    try:
        os.remove(sock_path)
    except OSError:
        pass
    return {"results": {l: {"code": pt.code, "out": pt.out.decode("utf-8", "replace"), "err": pt.err.decode("utf-8", "replace")}
                        for l, pt in parties.items()},
            "schedule": schedule, "steps": steps, "stalled": stalled or steps >= STEP_CAP}
