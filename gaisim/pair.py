"""Pair executions: the same history in two worlds that differ in one environment dimension
(git configuration / invocation context, deployment mode, checkpoint delivery schedule, the
fast-path buggify switch).  Dates come from the shared op-indexed clock, so corresponding commits
have equal ids and are compared by id."""
import json
import os

from .engine import Exec
from .oracle import Notes
from . import noteparse


class PairExec(Exec):
    """`self` = baseline world, `self.b` = variant world."""

    def __init__(self, root, trace):
        os.makedirs(os.path.join(root, "A"))
        os.makedirs(os.path.join(root, "B"))
        ta = dict(trace)
        ta["world"] = dict(trace.get("world", {}))
        Exec.__init__(self, os.path.join(root, "A"), ta)
        tb = dict(trace)
        tb["world"] = dict(trace.get("world", {}), **(trace.get("variant", {}).get("world") or {}))
        self.b = Exec(os.path.join(root, "B"), tb)
        self.variant = trace.get("variant", {})
        self.b.w.extra_env.update(self.variant.get("env") or {})

    def init(self):
        Exec.init(self)
        self.b.init()

    def transform(self, op):
        v = self.variant
        ob = dict(op)
        ctx = v.get("context")
        if op["op"] == "git" and ctx:
            argv = op["argv"]
            has_path = "--" in argv or argv[:1] in (["mv"], ["rm"])
            if ctx == "symlink_C":
                # the repository named through a symlinked spelling of its path (and, for commands without pathspecs,
                # one of its subdirectories)
                link = os.path.join(self.b.w.root, "lnk")
                if not os.path.islink(link):
                    os.symlink(self.b.w.root, link)
                rd = self.b.trace["world"].get("repo_dir") or "r0"
                sub = v.get("subdir", "src")
                deep = (not has_path) and os.path.isdir(os.path.join(self.b.repos["r0"], sub))
                ob["argv"] = ["-C", "{ROOT}/lnk/" + rd + ("/" + sub if deep else "")] + list(argv)
                ob["cwd"] = "/"
            elif ctx == "dash_C" or has_path:
                ob["argv"] = ["-C", "{REPO}"] + list(argv)
                ob["cwd"] = "/"
            elif ctx == "subdir":
                ob["cwd"] = v.get("subdir", "src")
        if op["op"] == "git" and v.get("git_env"):
            ob["env"] = dict(op.get("env") or {}, **v["git_env"])
        if op.get("b_crash"):
            ob["crash_plan"] = op["b_crash"]
        return ob

    def apply(self, op):
        for x in op.get("b_before") or []:
            self.b.apply(dict(x, dt=0))
        ra = Exec.apply(self, op)
        rb = self.b.apply(self.transform(op))
        # faults injected in the variant world count for the run
        for k, v in self.b.faults.items():
            self.faults[k] = self.faults.get(k, 0) + v
        self.b.faults = {}
        if self.b.probes.get("ckpt_crash.fired"):
            self.probe("ckpt_crash.fired", self.b.probes.pop("ckpt_crash.fired"))
        for x in op.get("b_after") or []:
            self.b.apply(dict(x, dt=0))
        self.b.w.now_ms = self.w.now_ms
        ra["b"] = rb
        return ra


def compare_pair(ex, what=("notes", "blame"), strict_prompts=True, files=None):
    """-> violation dict or None"""
    a, b = ex, ex.b
    ra, rb = a.repos["r0"], b.repos["r0"]
    ha, hb = a.w.head(ra), b.w.head(rb)
    if ha != hb:
        return {"monitor": "pair.sync", "class": "histories_diverged",
                "detail": {"head_a": ha, "head_b": hb}}
    if "notes" in what:
        na, nb = Notes(a.w, ra).canonical_map(), Notes(b.w, rb).canonical_map()
        if not strict_prompts:
            # sessions are compared where they attest lines; a prompt record that no line refers to
            # (metadata carried along for a commit without AI lines) is not part of the attestation
            for m in (na, nb):
                for c in m:
                    if isinstance(m[c], dict):
                        used = {h for per in m[c]["files"].values() for h in per}
                        m[c] = {"files": m[c]["files"],
                                "prompts": {h: v for h, v in m[c]["prompts"].items() if h in used}}
        if na != nb:
            diff = {}
            for c in sorted(set(na) | set(nb)):
                if na.get(c) != nb.get(c):
                    diff[c] = [json.dumps(na.get(c), sort_keys=True)[:300], json.dumps(nb.get(c), sort_keys=True)[:300]]
                    if len(diff) >= 2:
                        break
            if any(isinstance(v, dict) and v.get("files") for v in na.values()):
                ex.probe("ai_lines_observed")
            # do the two notes agree on the lines each commit itself adds (the entries blame can consult)?
            from .props.c01 import added_lines
            only_unadded = True
            for c in sorted(set(na) | set(nb)):
                if na.get(c) == nb.get(c):
                    continue
                fa = na[c].get("files", {}) if isinstance(na.get(c), dict) else None
                fb = nb[c].get("files", {}) if isinstance(nb.get(c), dict) else None
                if fa is None or fb is None:
                    only_unadded = False
                    break
                parent = a.w.head(ra, c + "^")
                for path in sorted(set(fa) | set(fb)):
                    al = added_lines(a.w, ra, parent, c, path)
                    ra_ = {h: sorted(n for n in ls if n in al) for h, ls in fa.get(path, {}).items()}
                    rb_ = {h: sorted(n for n in ls if n in al) for h, ls in fb.get(path, {}).items()}
                    if {h: v for h, v in ra_.items() if v} != {h: v for h, v in rb_.items() if v}:
                        only_unadded = False
                        break
                if not only_unadded:
                    break
            return {"monitor": "pair.notes", "class": "notes_differ",
                    "detail": {"diff": diff, "head": ha, "tip_differs": na.get(ha) != nb.get(ha),
                               "differ_only_on_lines_the_commit_did_not_add": only_unadded}}
        if any(isinstance(v, dict) and v.get("files") for v in na.values()):
            ex.probe("ai_lines_observed")
    if "blame" in what:
        for path in (files or a.w.tracked_files(ra)):
            ca, cb = a.w.read(ra, path), b.w.read(rb, path)
            if ca is None or ca != cb or "\0" in ca or not ca.strip():
                continue
            arg = path if not path.startswith("-") else "./" + path
            ba, r1 = a.w.blame_json(ra, arg)
            bb, r2 = b.w.blame_json(rb, arg)
            if (ba is None) != (bb is None) or (ba is not None and ba[0] != bb[0]):
                return {"monitor": "pair.blame", "class": "blame_differs",
                        "detail": {"path": path, "a": sorted((ba or [{}])[0].items())[:10],
                                   "b": sorted((bb or [{}])[0].items())[:10], "err_b": r2.err[-200:]}}
    if "stats" in what:
        sa = a.w.gitai(ra, "stats", "HEAD", "--json").out
        sb = b.w.gitai(rb, "stats", "HEAD", "--json").out
        try:
            ja, jb = json.loads(sa[sa.index("{"):]), json.loads(sb[sb.index("{"):])
        except ValueError:
            ja, jb = sa, sb
        if ja != jb:
            return {"monitor": "pair.stats", "class": "stats_differ", "detail": {"a": str(ja)[:300], "b": str(jb)[:300]}}
    return None
