"""Known-finding classes (DESIGN §5): predicates evaluated on a (preferably minimised) trace and
its violation.  A violation is attributed to a listed finding only if the predicate named by the
finding holds; anything else stays a VIOLATION."""


def _argvs(trace):
    return [op.get("argv", []) for op in trace.get("ops", []) if op.get("op") in ("git", "raw")]


def _has_git(trace, *words):
    for a in _argvs(trace):
        if all(any(w == x or (w.endswith("*") and x.startswith(w[:-1])) for x in a) for w in words):
            return True
    return False


PREDICATES = {}


def predicate(name):
    def deco(fn):
        PREDICATES[name] = fn
        return fn
    return deco


def matches(kf, trace, viol):
    sig = kf.get("signature") or {}
    if sig.get("monitor") and sig["monitor"] != viol.get("monitor"):
        return False
    if sig.get("class") and viol.get("class") not in (
            sig["class"] if isinstance(sig["class"], list) else [sig["class"]]):
        return False
    fn = PREDICATES.get(kf.get("predicate"))
    if fn is None:
        return False
    return bool(fn(trace, viol))


def classify(db, prop_id, trace, viol):
    for kf in db.get("findings", []):
        if kf["property"] == prop_id and matches(kf, trace, viol):
            return kf
    return None
