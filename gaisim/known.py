"""Known-finding classes (DESIGN §5): predicates evaluated on a (preferably minimised) trace and
its violation.  A violation is attributed to a listed finding only if the predicate named by the
finding holds; anything else stays a VIOLATION."""


def _argvs(trace):
    return [op.get("argv", []) for op in trace.get("ops", []) if op.get("op") in ("git", "raw")]


def _has_git(trace, *words):
    for a in _argvs(trace):
        if all(any(w == x or (w.endswith("*") and x.startswith(w[:-1])) for x in a) for w in words):
            return True
    return False


PREDICATES = {}


def predicate(name):
    def deco(fn):
        PREDICATES[name] = fn
        return fn
    return deco


def matches(kf, trace, viol):
    sig = kf.get("signature") or {}
    mons = sig.get("monitor")
    if mons and viol.get("monitor") not in (mons if isinstance(mons, list) else [mons]):
        return False
    if sig.get("class") and viol.get("class") not in (
            sig["class"] if isinstance(sig["class"], list) else [sig["class"]]):
        return False
    fn = PREDICATES.get(kf.get("predicate"))
    if fn is None:
        return False
    return bool(fn(trace, viol))


def classify(db, prop_id, trace, viol):
    for kf in db.get("findings", []):
        if kf["property"] == prop_id and matches(kf, trace, viol):
            return kf
    return None


# ---------------------------------------------------------------------------------------------
# predicates (evaluated on the minimised trace + its violation)
# ---------------------------------------------------------------------------------------------
def _ops(trace):
    return trace.get("ops", [])


def _step_argv(trace, viol):
    st = viol.get("step")
    ops = _ops(trace)
    if isinstance(st, int) and 0 <= st < len(ops):
        return ops[st].get("argv") or []
    return []


def _index_of(trace, pred, start=0, end=None):
    ops = _ops(trace)
    for i in range(start, len(ops) if end is None else min(end, len(ops))):
        if pred(ops[i]):
            return i
    return None


def _is_git(op, *words):
    a = op.get("argv") or []
    return op.get("op") == "git" and all(w in a for w in words)


LEDGER_CLASSES = ("ai_line_reported_human", "human_line_reported_ai", "wrong_session")


def _feature_range(trace):
    """(start, end) op indexes of the commits made on the branch that is rewritten afterwards: from its
    creation (checkout/switch -b|-c) to the next checkout away from it; None when there is none"""
    ops = _ops(trace)
    start = _index_of(trace, lambda o: o.get("op") == "git" and (o.get("argv") or [])[:1] in (["checkout"], ["switch"])
                      and any(x in ("-b", "-c") for x in o["argv"]))
    if start is None:
        return None
    end = _index_of(trace, lambda o: o.get("op") == "git" and (o.get("argv") or [])[:1] in (["checkout"], ["switch"])
                    and not any(x in ("-b", "-c") for x in o["argv"]), start + 1)
    return (start, end if end is not None else len(ops))



@predicate("stash_pop_shift")
def stash_pop_shift(trace, viol):
    """stash push ; a commit that changes the stashed file ; stash pop/apply ; commit -> wrong lines"""
    if viol.get("class") not in LEDGER_CLASSES:
        return False
    push = _index_of(trace, lambda o: _is_git(o, "stash", "push"))
    if push is None:
        return False
    pop = _index_of(trace, lambda o: _is_git(o, "stash") and ("pop" in o["argv"] or "apply" in o["argv"]), push)
    if pop is None:
        return False
    between_commit = _index_of(trace, lambda o: _is_git(o, "commit"), push, pop)
    st = viol.get("step")
    # the commit made while the work was stashed changed the SAME file (that is what shifts the stashed lines)
    path = (viol.get("detail") or {}).get("path")
    # (an edit that was itself stashed again - a second stash entry - is not part of that commit)
    last_push = max(i for i, o in enumerate(_ops(trace)[:pop]) if _is_git(o, "stash", "push"))
    same_file_changed = _index_of(trace, lambda o: o.get("op") == "edit" and (path is None or path in (o.get("files") or {})),
                                  last_push, pop) is not None
    return between_commit is not None and same_file_changed and isinstance(st, int) and st > pop


@predicate("rebase_conflict_multi_commit")
def rebase_conflict_multi_commit(trace, viol):
    if viol.get("class") not in LEDGER_CLASSES:
        return False
    reb = _index_of(trace, lambda o: _is_git(o, "rebase") and "--continue" not in o["argv"] and "--abort" not in o["argv"])
    if reb is None:
        # the same replay of a RANGE through cherry-pick (git cherry-pick A..B): same derivation of every note from the
        # state at the end of the range
        pick = _index_of(trace, lambda o: _is_git(o, "cherry-pick") and any(".." in a for a in o["argv"]))
        if pick is None:
            return False
        res = _index_of(trace, lambda o: o.get("op") == "resolve", pick)
        st = viol.get("step")
        return res is not None and isinstance(st, int) and st > res and "cherry-pick" in _step_argv(trace, viol)
    res = _index_of(trace, lambda o: o.get("op") == "resolve", reb)
    st = viol.get("step")
    # the rewritten range has two or more commits (a single-commit rebase with a conflict is handled correctly)
    fr = _feature_range(trace)
    where = _ops(trace)[fr[0]].get("repo") if fr else None
    n_commits = sum(1 for o in _ops(trace)[fr[0]:fr[1]] if _is_git(o, "commit") and o.get("repo") == where) if fr else 2
    return res is not None and isinstance(st, int) and st > res and "rebase" in _step_argv(trace, viol) and n_commits >= 2


@predicate("rebase_edit_amend")
def rebase_edit_amend(trace, viol):
    if viol.get("class") not in LEDGER_CLASSES:
        return False
    reb = _index_of(trace, lambda o: _is_git(o, "rebase", "-i") and "edit" in (o.get("plan") or ""))
    if reb is None:
        return False
    am = _index_of(trace, lambda o: _is_git(o, "commit", "--amend"), reb)
    cont = _index_of(trace, lambda o: _is_git(o, "rebase", "--continue"), reb)
    st = viol.get("step")
    return am is not None and cont is not None and am < cont and isinstance(st, int) and st >= cont


@predicate("amend_shift")
def amend_shift(trace, viol):
    """commit ; human edit of the committed file ; commit --amend"""
    if viol.get("class") not in LEDGER_CLASSES:
        return False
    av = _step_argv(trace, viol)
    if not ("commit" in av and "--amend" in av):
        return False
    st = viol["step"]
    ops = _ops(trace)
    prev_commit = None
    for i in range(st - 1, -1, -1):
        if _is_git(ops[i], "commit"):
            prev_commit = i
            break
    if prev_commit is None:
        return False
    return any(o.get("op") == "edit" and (o.get("who") == "human" or (o.get("desc") or {}).get("kind") == "delete")
               for o in ops[prev_commit:st])


@predicate("rebase_i_drop")
def rebase_i_drop(trace, viol):
    if viol.get("class") not in LEDGER_CLASSES:
        return False
    reb = _index_of(trace, lambda o: _is_git(o, "rebase", "-i") and "drop" in (o.get("plan") or ""))
    st = viol.get("step")
    return reb is not None and isinstance(st, int) and st >= reb


@predicate("rebase_human_intraline_edit")
def rebase_human_intraline_edit(trace, viol):
    """a human intra-line edit inside the rewritten range, then a rebase through the slow path"""
    if viol.get("class") != "human_line_reported_ai":
        return False
    reb = _index_of(trace, lambda o: _is_git(o, "rebase") and "--continue" not in o["argv"] and "--abort" not in o["argv"])
    if reb is None:
        return False
    # ... made on the branch that is rewritten (a human intra-line edit upstream is not this finding)
    fr = _feature_range(trace) or (0, reb)
    mod = _index_of(trace, lambda o: o.get("op") == "edit" and o.get("who") == "human" and
                    (o.get("desc") or {}).get("kind") in ("modify", "modify_part"), fr[0], min(fr[1], reb))
    st = viol.get("step")
    return mod is not None and isinstance(st, int) and st >= reb


@predicate("reset_multi_commit")
def reset_multi_commit(trace, viol):
    """reset --soft/--mixed HEAD~k then re-commit, where k >= 2 or the history before the reset contains a
    human intra-line, whitespace-only or REPLACING edit of lines next to AI lines (the reconstruction matches the
    un-done commits' lines against the work tree by position / content and credits the person's replacement lines)"""
    if viol.get("class") not in LEDGER_CLASSES:
        return False

    def is_reset(o):
        a = o.get("argv") or []
        return o.get("op") == "git" and a[:1] == ["reset"] and any(x.startswith("HEAD~") for x in a)
    rs = _index_of(trace, is_reset)
    st = viol.get("step")
    if rs is None or not isinstance(st, int) or st <= rs:
        return False
    a = _ops(trace)[rs]["argv"]
    k = max([int(x[5:]) for x in a if x.startswith("HEAD~") and x[5:].isdigit()] or [1])
    human_ws = any(o.get("op") == "edit" and o.get("who") == "human" and
                   (o.get("desc") or {}).get("kind") in ("reindent", "modify", "modify_part", "replace")
                   for o in _ops(trace)[:rs])
    return k >= 2 or human_ws


def _pending_across_commit(trace, path, upto):
    """index of an AI edit of `path` that is followed by a commit op before `upto` (so its lines
    can be pending in INITIAL), or None"""
    ops = _ops(trace)
    for i, o in enumerate(ops[:upto]):
        if o.get("op") == "edit" and o.get("who") != "human" and path in (o.get("files") or {}):
            if _index_of(trace, lambda x: _is_git(x, "commit"), i, upto) is not None:
                return i
    return None


def _untracked_at(trace, path, upto):
    """the file was created by an edit op and never added before op `upto`"""
    if path in ((trace.get("init") or {}).get("files") or {}):
        return False
    for o in _ops(trace)[:upto]:
        a = o.get("argv") or []
        if o.get("op") == "git" and a[:1] == ["add"] and ("-A" in a or path in a or "." in a):
            return False
        if o.get("op") == "stage" and o.get("path") == path:
            return False
    return True


@predicate("initial_positional")
def initial_positional(trace, viol):
    """AI lines pending across a (partial) commit; then a human edit of that file that is not
    preceded by a checkpoint: INITIAL is applied by line number to the new content"""
    path = (viol.get("detail") or {}).get("path")
    st = viol.get("step")
    if not path or not isinstance(st, int):
        return False
    ops = _ops(trace)
    for i, o in enumerate(ops[:st]):
        if o.get("op") == "edit" and o.get("who") == "human" and path in (o.get("files") or {}) \
                and _pending_across_commit(trace, path, i) is not None:
            if not o.get("pre_ckpt") or _untracked_at(trace, path, i):
                return True
    return False


@predicate("initial_outlives_discard")
def initial_outlives_discard(trace, viol):
    """AI lines pending across a (partial) commit; then restore / stash push / checkout -- . discards
    them from the work tree but INITIAL keeps their line numbers"""
    path = (viol.get("detail") or {}).get("path")
    st = viol.get("step")
    if not path or not isinstance(st, int):
        return False
    ops = _ops(trace)
    for i, o in enumerate(ops[:st]):
        a = o.get("argv") or []
        if o.get("op") == "git" and (a[:1] == ["restore"] or a[:2] == ["stash", "push"] or a[:1] == ["stash"] and len(a) == 1
                                     or (a[:1] == ["checkout"] and a[-1:] == ["."])):
            if _pending_across_commit(trace, path, i) is not None:
                return True
    return False


@predicate("partial_unstaged_nonpure_hunk")
def partial_unstaged_nonpure_hunk(trace, viol):
    """a hunk-level partial commit that leaves a replacing/deleting hunk unstaged in the same file"""
    from .hist import hunks_between
    path = (viol.get("detail") or {}).get("path")
    st = viol.get("step")
    if not path or not isinstance(st, int):
        return False
    ops = _ops(trace)
    content = None
    for i, o in enumerate(ops[:st + 1]):
        if o.get("op") == "edit" and path in (o.get("files") or {}):
            content = o["files"][path]
        if o.get("op") == "stage" and o.get("path") == path and content is not None:
            _a, _b, hunks = hunks_between(o["content"], content)
            if any(h[0] != h[1] for h in hunks):
                return True
    return False


@predicate("corrupt_state_blocks_commit")
def corrupt_state_blocks_commit(trace, viol):
    """a damaged file under .git/ai makes the pre-commit checkpoint fail: git commit is refused,
    and keeps being refused on retry, until the file is removed by hand"""
    f = trace.get("fault") or (viol.get("detail") or {}).get("fault") or {}
    d = viol.get("detail") or {}
    err = (d.get("gitai_err") or "") + (d.get("retry_err") or "")
    return f.get("family") == "corrupt" and viol.get("monitor") == "fault.followup" and \
        viol.get("class") in ("retry_differs_from_plain_git", "later_command_exit_status_differs") and \
        "Pre-commit failed" in err


@predicate("rebase_note_lines_beyond_file")
def rebase_note_lines_beyond_file(trace, viol):
    """notes written by the rebase content-replay path describe the whole file state carried over
    from the original head, also for commits of the range that did not touch the file: they can
    list line numbers the file does not have at that commit"""
    if viol.get("class") not in ("line_beyond_file", "lists_absent_path"):
        return False
    if viol.get("class") == "lists_absent_path" and (viol.get("detail") or {}).get("commit_touches_offending_path", False):
        return False      # (only: a file that a LATER commit of the range creates, carried into an earlier commit's note)
    if (viol.get("detail") or {}).get("shortcut_taken"):
        return False      # the note was copied by the shortcut, not derived by the replay path
    av = _step_argv(trace, viol)
    st = viol.get("step")
    ops = _ops(trace)
    ci_rebase = isinstance(st, int) and st < len(ops) and ops[st].get("op") == "ci_run" and \
        _index_of(trace, lambda o: o.get("op") == "server_merge" and o.get("how") == "rebase") is not None
    if not ci_rebase and not (av[:1] in (["rebase"], ["cherry-pick"], ["pull"]) and "--abort" not in av):
        return False
    # the listed class: the commit did not itself change the file (it carries the file's state
    # from the original head), or a conflicted region was resolved away
    resolved = _index_of(trace, lambda o: o.get("op") == "resolve") is not None
    return resolved or not (viol.get("detail") or {}).get("commit_touches_offending_path", False)


@predicate("hooks_stash_apply")
def hooks_stash_apply(trace, viol):
    """git stash apply (which moves no ref) is invisible to the managed hooks"""
    if viol.get("monitor") not in ("pair.notes", "pair.blame"):
        return False
    ap = _index_of(trace, lambda o: _is_git(o, "stash", "apply"))
    push = _index_of(trace, lambda o: _is_git(o, "stash", "push"))
    ops = _ops(trace)
    human_before_push = push is not None and push > 0 and ops[push - 1].get("op") == "edit" and ops[push - 1].get("who") == "human"
    st = viol.get("step")
    return (trace.get("variant") or {}).get("world", {}).get("mode") == "hooks" and (ap is not None or human_before_push) \
        and isinstance(st, int) and st > (ap if ap is not None else push)


@predicate("replay_intermediate_notes")
def replay_intermediate_notes(trace, viol):
    """the two executions differ on a commit that is not the tip of the rewritten range"""
    return viol.get("class") == "notes_differ_on_lines_the_commit_adds" and \
        not (viol.get("detail") or {}).get("is_tip", False) and \
        (trace.get("variant") or {}).get("env", {}).get("GIT_AI_VERIF_FLAGS") == "decline_fast_path"


@predicate("checkpoint_races_commit")
def checkpoint_races_commit(trace, viol):
    """an agent's checkpoint that resolved the old HEAD as base while a wrapped commit moves the working log"""
    return (trace.get("cfg") or {}).get("scenario") == "ckpt_vs_commit" and viol.get("monitor") == "sched.linearizable"


@predicate("stats_ignore_breakdown")
def stats_ignore_breakdown(trace, viol):
    return (viol.get("class") or "").startswith("breakdown_does_not_sum") and bool((viol.get("detail") or {}).get("ignore_option"))


@predicate("stats_breakdown_counts_pending_sessions")
def stats_breakdown_counts_pending_sessions(trace, viol):
    """a partial commit while another session's (human-overridden) work stays pending: the per-tool
    breakdown counts that session although none of its lines is in the commit"""
    if not (viol.get("class") or "").startswith("breakdown_does_not_sum") or (viol.get("detail") or {}).get("ignore_option"):
        return False
    st = viol.get("step")
    ops = _ops(trace)
    if not isinstance(st, int):
        return False
    partial = any((o.get("op") == "stage") or (_is_git(o, "add", "--")) or (_is_git(o, "commit", "--")) for o in ops[:st + 1])
    sessions = {o.get("who") for o in ops[:st + 1] if o.get("op") == "edit" and o.get("who") != "human"}
    # ... or the same session's own overridden lines stay pending: the commit total of mixed lines is capped by
    # the room the commit has, the per-tool numbers are not
    overridden = any(o.get("op") == "edit" and o.get("who") == "human" and
                     (o.get("desc") or {}).get("kind") in ("modify", "modify_part", "replace") for o in ops[:st + 1])
    return partial and (len(sessions) >= 2 or overridden)


@predicate("ws_change_next_to_deletion")
def ws_change_next_to_deletion(trace, viol):
    """the reported line exists in the trace in two whitespace variants (same text up to blanks) and
    the edit that introduced the later variant also removed lines from that file: someone changed
    only the line's whitespace in the same edit that deleted neighbouring lines"""
    if viol.get("class") not in ("ai_line_reported_human", "wrong_session"):
        return False
    import re
    text = (viol.get("detail") or {}).get("text") or ""
    key = re.sub(r"\s+", "", text)
    if not key:
        return False
    content = dict((trace.get("init") or {}).get("files") or {})
    seen = {}
    for o in _ops(trace):
        if o.get("op") != "edit":
            continue
        for path, c in (o.get("files") or {}).items():
            old = content.get(path) or ""
            new = c or ""
            for ln in new.splitlines():
                if re.sub(r"\s+", "", ln) == key:
                    prev = seen.get(path)
                    if prev is not None and prev != ln and len(new.splitlines()) < len(old.splitlines()):
                        return True
                    seen[path] = ln
            content[path] = c
    return False


@predicate("clock_order")
def clock_order(trace, viol):
    """the checkpoint clock stood still or stepped back between two checkpoints of the history"""
    if viol.get("class") not in LEDGER_CLASSES:
        return False
    st = viol.get("step")
    return isinstance(st, int) and any((o.get("dt", 1) or 0) <= 0 for o in _ops(trace)[:st + 1] if o.get("op") == "edit")


@predicate("failed_head_lookup_skips_precommit")
def failed_head_lookup_skips_precommit(trace, viol):
    """an internal 'git rev-parse <branch/HEAD>' that fails (any non-zero status: checkpoint::run maps every error of
    head.target() to the base "initial") is read as "unborn branch":
    the pre-commit checkpoint then runs against the wrong working log and the commit goes ahead"""
    f = trace.get("fault") or (viol.get("detail") or {}).get("fault") or {}
    argv = f.get("argv") or []
    target = (trace.get("target") or {}).get("argv") or []
    # exactly this: the lookup of HEAD / the current branch fails while a commit is being wrapped
    return f.get("family") == "git" and (f.get("kind") or "").startswith("fail:") and "rev-parse" in argv and \
        any(a == "HEAD" or a.startswith("refs/heads/") for a in argv) and target[:1] == ["commit"] and \
        (viol.get("class") or "").startswith("attribution_invented_after_fault")


@predicate("merge_switch_conflict")
def merge_switch_conflict(trace, viol):
    """checkout/switch --merge (-m) with pending AI work that stops on a conflict: the carried
    attribution is stored by line number against the text WITH conflict markers; resolving the
    conflict shifts the lines (checkpoints skip conflicted files), so other lines are credited"""
    if viol.get("class") not in LEDGER_CLASSES:
        return False
    sw = _index_of(trace, lambda o: o.get("op") == "git" and (o.get("argv") or [])[:1] in (["checkout"], ["switch"])
                   and any(x in ("--merge", "-m") for x in o["argv"]))
    if sw is None:
        return False
    res = _index_of(trace, lambda o: o.get("op") == "resolve", sw)
    st = viol.get("step")
    return res is not None and isinstance(st, int) and st > res


@predicate("pull_rebase_conflict")
def pull_rebase_conflict(trace, viol):
    """git pull --rebase that stops on a conflict and is finished with rebase --continue: no rebase
    start was recorded for the pull, so the continue is taken for a new rebase and the rewritten
    commits (and autostashed pending work) lose their attribution"""
    if viol.get("class") != "ai_line_reported_human":
        return False
    pl = _index_of(trace, lambda o: _is_git(o, "pull", "--rebase"))
    if pl is None:
        return False
    cont = _index_of(trace, lambda o: _is_git(o, "rebase", "--continue"), pl)
    st = viol.get("step")
    return cont is not None and isinstance(st, int) and st >= cont


@predicate("pick_conflict_multi_commit_notes")
def pick_conflict_multi_commit_notes(trace, viol):
    """cherry-pick of a range (two or more commits) through the content-replay path: wrapper mode writes
    the notes of all picked commits from the state at the end of the range, hooks mode commit by commit"""
    if viol.get("monitor") != "pair.notes":
        return False
    cp = _index_of(trace, lambda o: _is_git(o, "cherry-pick") and any(".." in x for x in o["argv"]))
    if cp is None:
        return False
    st = viol.get("step")
    # only the notes of commits below the tip of the picked range differ
    return isinstance(st, int) and st >= cp and not (viol.get("detail") or {}).get("tip_differs", False)


@predicate("hooks_pathspec_reset")
def hooks_pathspec_reset(trace, viol):
    """git reset <commit> -- <path> moves no ref and runs no hook: invisible to the managed hooks"""
    if viol.get("monitor") not in ("pair.notes", "pair.blame"):
        return False
    if (trace.get("variant") or {}).get("world", {}).get("mode") != "hooks":
        return False
    rs = _index_of(trace, lambda o: o.get("op") == "git" and (o.get("argv") or [])[:1] == ["reset"] and "--" in o["argv"]
                   and any(x.startswith("HEAD~") for x in o["argv"]))
    st = viol.get("step")
    return rs is not None and isinstance(st, int) and st > rs


@predicate("hooks_rebase_reorder_new_file")
def hooks_rebase_reorder_new_file(trace, viol):
    """git rebase -i that RE-ORDERS commits of which one creates a file: in git-hooks mode the rewritten commit that
    creates the file gets no attestation for it"""
    if viol.get("monitor") not in ("pair.notes", "pair.blame"):
        return False
    if (trace.get("variant") or {}).get("world", {}).get("mode") != "hooks":
        return False
    rb = _index_of(trace, lambda o: _is_git(o, "rebase", "-i") and
                   ((o.get("plan") or "").startswith("reverse") or (o.get("plan") or "").startswith("swap")))
    st = viol.get("step")
    if rb is None or not isinstance(st, int) or st < rb:
        return False
    # a file that does not exist at the start is written inside the range
    init = set((trace.get("init") or {}).get("files") or {})
    created = any(o.get("op") == "edit" and any(p not in init for p in (o.get("files") or {})) for o in _ops(trace)[:rb])
    return created


@predicate("hooks_pull_autostash_abort")
def hooks_pull_autostash_abort(trace, viol):
    """pull --rebase --autostash that stops on a conflict and is aborted: git re-applies the autostash,
    wrapper mode keeps the pending attribution, the managed hooks lose it"""
    if viol.get("monitor") not in ("pair.notes", "pair.blame"):
        return False
    if (trace.get("variant") or {}).get("world", {}).get("mode") != "hooks":
        return False
    pl = _index_of(trace, lambda o: _is_git(o, "pull", "--rebase", "--autostash"))
    if pl is None:
        return False
    ab = _index_of(trace, lambda o: _is_git(o, "rebase", "--abort"), pl)
    st = viol.get("step")
    return ab is not None and isinstance(st, int) and st > ab


@predicate("ci_squash_taken_for_rebase")
def ci_squash_taken_for_rebase(trace, viol):
    """git-ai ci: a squash merge of a pull request with N >= 2 commits is classified as a rebase merge
    whenever the base branch has N linear commits below the merge commit (it counts commits instead of
    comparing them), so the N-1 base-branch commits below the squash commit receive notes derived from
    the pull request's commits"""
    ops = _ops(trace)
    sm = _index_of(trace, lambda o: o.get("op") == "server_merge" and o.get("how") == "squash")
    st = viol.get("step")
    if sm is None or not isinstance(st, int) or st >= len(ops) or ops[st].get("op") != "ci_run":
        return False
    co = _index_of(trace, lambda o: _is_git(o, "checkout", "-b", "feat"))
    n_commits = sum(1 for o in ops[co or 0:sm] if _is_git(o, "commit"))
    return n_commits >= 2


@predicate("hooks_rebase_abort_masks_hooks")
def hooks_rebase_abort_masks_hooks(trace, viol):
    """git rebase --abort in git-hooks mode: the managed hooks were renamed (masked) when the rebase started and
    only post-rewrite / post-checkout put them back; an abort fires neither, so the following commits run no
    git-ai hook at all and get no note until a branch switch or amend heals the hooks"""
    if viol.get("monitor") not in ("pair.notes", "pair.blame"):
        return False
    if (trace.get("variant") or {}).get("world", {}).get("mode") != "hooks":
        return False
    ab = _index_of(trace, lambda o: _is_git(o, "rebase", "--abort"))
    st = viol.get("step")
    if ab is None or not isinstance(st, int) or st <= ab:
        return False
    return "commit" in _step_argv(trace, viol)


@predicate("amend_drops_pending_untracked_file")
def amend_drops_pending_untracked_file(trace, viol):
    """an AI-created file that is still untracked is pending (INITIAL) after a partial commit; git commit --amend
    of that commit (even message-only) drops its pending attribution; committed later, its lines are human"""
    if viol.get("class") != "ai_line_reported_human":
        return False
    path = (viol.get("detail") or {}).get("path")
    st = viol.get("step")
    am = _index_of(trace, lambda o: _is_git(o, "commit", "--amend"))
    if not path or am is None or not isinstance(st, int) or st <= am:
        return False
    return _untracked_at(trace, path, am) and _index_of(trace, lambda o: _is_git(o, "commit"), 0, am) is not None


@predicate("replay_notes_carry_unadded_lines")
def replay_notes_carry_unadded_lines(trace, viol):
    """rebase / cherry-pick / pull --rebase through the content-replay path in wrapper mode: the rewritten commit's
    note also lists AI lines of the file that this commit did not add (state carried from the original head); hooks
    mode lists only the added ones.  Both agree on every line the commit adds, so blame is the same"""
    if viol.get("monitor") != "pair.notes":
        return False
    if not (viol.get("detail") or {}).get("differ_only_on_lines_the_commit_did_not_add", False):
        return False
    return _index_of(trace, lambda o: o.get("op") == "git" and (o.get("argv") or [])[:1] in (["rebase"], ["cherry-pick"], ["pull"])) is not None
