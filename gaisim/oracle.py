"""Observation helpers and oracles shared by the property monitors."""
import json

from . import noteparse
from .ledger import split_lines, HUMAN
from .world import session_hash


class Notes:
    """Snapshot of refs/notes/ai of one repository: commit -> (blob, raw, parsed|error)."""

    def __init__(self, world, repo, ref="refs/notes/ai"):
        self.world, self.repo = world, repo
        self.by_commit = {}
        self.dups = []
        seen = {}
        for blob, obj in world.notes_list(repo, ref):
            if obj in seen:
                self.dups.append(obj)
            seen[obj] = blob
        self.blob_of = seen
        self._raw = {}
        self._parsed = {}

    def commits(self):
        return sorted(self.blob_of)

    def raw(self, commit):
        blob = self.blob_of.get(commit)
        if blob is None:
            return None
        if blob not in self._raw:
            r = self.world.raw_git(self.repo, "cat-file", "-p", blob)
            self._raw[blob] = r.out if r.code == 0 else None
        return self._raw[blob]

    def parsed(self, commit):
        """parsed note, or None when absent, or a NoteError instance when malformed."""
        blob = self.blob_of.get(commit)
        if blob is None:
            return None
        if blob not in self._parsed:
            raw = self.raw(commit)
            try:
                self._parsed[blob] = noteparse.parse_note(raw if raw is not None else "")
            except noteparse.NoteError as ex:
                self._parsed[blob] = ex
        return self._parsed[blob]

    def canonical_map(self):
        out = {}
        for c in self.commits():
            p = self.parsed(c)
            if isinstance(p, noteparse.NoteError):
                out[c] = "ERR:" + str(p)
            elif p is not None:
                out[c] = noteparse.canonical(p)
        return out


def git_blame_porcelain(world, repo, rev, path, extra=()):
    """[(final_line, sha, orig_line, orig_path, text)] from plain git blame --line-porcelain."""
    args = ["blame", "--line-porcelain"] + list(extra)
    if rev:
        args.append(rev)
    args += ["--", path]
    r = world.raw_git(repo, *args)
    if r.code != 0:
        return None
    out = []
    cur = None
    for ln in r.out.split("\n"):
        if cur is None:
            parts = ln.split(" ")
            if len(parts) >= 3 and len(parts[0]) in (40, 64):
                cur = {"sha": parts[0], "orig": int(parts[1]), "final": int(parts[2]), "file": None}
            continue
        if ln.startswith("\t"):
            out.append((cur["final"], cur["sha"], cur["orig"], cur["file"], ln[1:]))
            cur = None
        elif ln.startswith("filename "):
            cur["file"] = ln[len("filename "):]
    return out


def overlay(world, repo, rev, path, notes, extra=()):
    """The simulator's own AI-blame: {final_line -> hash} for AI lines, computed from plain git
    blame and the raw notes through the independent parser (original line, original path)."""
    rows = git_blame_porcelain(world, repo, rev, path, extra)
    if rows is None:
        return None
    res = {}
    maps = {}
    for final, sha, orig, opath, _text in rows:
        key = (sha, opath)
        if key not in maps:
            p = notes.parsed(sha)
            if p is None or isinstance(p, noteparse.NoteError):
                maps[key] = {}
            else:
                maps[key] = noteparse.line_map(p, unquote_c(opath))
        h = maps[key].get(orig)
        if h is not None:
            res[final] = h
    return res


def unquote_c(p):
    """git quotes unusual path names in porcelain output ("a\\tb"); undo it."""
    if not (p and p.startswith('"') and p.endswith('"')):
        return p
    body = p[1:-1]
    out = bytearray()
    i = 0
    while i < len(body):
        c = body[i]
        if c == "\\" and i + 1 < len(body):
            n = body[i + 1]
            if n in "01234567":
                out.append(int(body[i + 1:i + 4], 8))
                i += 4
                continue
            out.extend({"n": b"\n", "t": b"\t", "\\": b"\\", '"': b'"', "r": b"\r",
                        "a": b"\a", "b": b"\b", "f": b"\f", "v": b"\v"}.get(n, n.encode()))
            i += 2
        else:
            out.extend(c.encode("utf-8"))
            i += 1
    return out.decode("utf-8", "replace")


def file_at(world, repo, rev, path):
    r = world.raw_git(repo, "show", "%s:%s" % (rev, path))
    return r.out if r.code == 0 else None


def compare_with_ledger(lines, reported, ledger, sessions, one_sided=False):
    """lines: list of line texts (1-based index+1); reported: {line_no -> hash}.
    -> list of (class, line_no, text, reported, expected)"""
    hash_to_session = {session_hash(s): s for s in sessions}
    probs = []
    for i, text in enumerate(lines, 1):
        exp = ledger.who(text)
        if exp is None:
            continue
        h = reported.get(i)
        rep = HUMAN if h is None else hash_to_session.get(h, "unknown:" + h)
        if rep in exp:
            continue
        if rep == HUMAN:
            if not one_sided:
                probs.append(("ai_line_reported_human", i, text, rep, sorted(exp)))
        elif exp == {HUMAN}:
            probs.append(("human_line_reported_ai", i, text, rep, sorted(exp)))
        else:
            probs.append(("wrong_session", i, text, rep, sorted(exp)))
    return probs


def check_rev_against_ledger(world, repo, rev, ledger, sessions, notes=None, one_sided=False,
                             use_gitai_blame=False, files=None):
    """Ledger comparison of every text file of `rev` through the simulator's overlay (and,
    when asked and the work tree equals rev, through git-ai blame --json as well)."""
    notes = notes or Notes(world, repo)
    out = []
    for path in (files if files is not None else world.tracked_files(repo, rev)):
        content = file_at(world, repo, rev, path)
        if content is None or "\0" in content:
            continue
        lines = split_lines(content)
        ov = overlay(world, repo, rev, path, notes)
        if ov is None:
            continue
        for p in compare_with_ledger(lines, ov, ledger, sessions, one_sided):
            out.append(("overlay", path) + p)
        if use_gitai_blame and world.read(repo, path) == content:
            bj, r = world.blame_json(repo, path if not path.startswith("-") else "./" + path)
            if bj is None:
                out.append(("gitai_blame", path, "blame_failed", 0, r.err[-300:], None, None))
            else:
                for p in compare_with_ledger(lines, bj[0], ledger, sessions, one_sided):
                    out.append(("gitai_blame", path) + p)
    return out
