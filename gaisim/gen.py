"""Workload generation helpers: line contents, edits, file names.  All randomness comes from the
`random.Random` instance passed in (seeded from the run seed)."""
from .ledger import HUMAN, split_lines

WORDS = ("alpha beta gamma delta epsilon zeta eta theta iota kappa lambda mu nu xi omicron pi rho "
         "sigma tau upsilon phi chi psi omega let mut fn return if else while for match use "
         "x y z = + ( ) { } ; 0 1 2 42").split()

MULTIBYTE = ["naïve", "日本語", "😀", "é", "Ω≈ç√", "ß"]
DIFFISH = ["++ ", "-- ", "@@ -1 +1 @@ ", "diff --git a/x b/x ", "+++ b/y ", "--- a/y ", "+", "-", "\\ No newline "]
DUP_POOL = ["}", "{", "return;", "    pass", "end", "// ---"]

PLAIN_NAMES = ["a.txt", "b.txt", "src/c.rs", "src/d.py", "lib/e.js", "f.md"]
HAZARD_NAMES = ["with space.txt", "quo'te.txt", "dq\"x.txt", "tab\there.txt", "ünï.txt", "-dash.txt",
                "sub dir/x y.txt", "日本.txt", "a b/c d/e f.txt", "trailing.dot.", "---", "d/---", "caf\u00e9\"q.txt", "\u65e5\u672c \"x\".txt"]


class IdGen:
    def __init__(self, start=1):
        self.next_id = start

    def fresh_id(self):
        n = self.next_id
        self.next_id += 1
        return n


def words(rng, n=None):
    n = n or rng.randint(1, 5)
    return " ".join(rng.choice(WORDS) for _ in range(n))


def new_line(rng, ex, hazards=None):
    """A fresh line whose normalised text is unique in the run (carries a run-global id),
    except when a duplicate-pool hazard is drawn."""
    hz = hazards or {}
    if hz.get("dups") and rng.random() < 0.12:
        return rng.choice(DUP_POOL)
    if hz.get("blank") and rng.random() < 0.08:
        return rng.choice(["", "   ", "\t"])
    lid = "L%d" % ex.fresh_id()
    body = words(rng)
    if hz.get("multibyte") and rng.random() < 0.25:
        body += " " + rng.choice(MULTIBYTE)
    if hz.get("long") and rng.random() < 0.05:
        body += " " + "x" * rng.choice([300, 5000, 20000])
    line = "%s %s" % (lid, body)
    if hz.get("uspace") and rng.random() < 0.35:
        # non-ASCII Unicode blanks between tokens (NBSP, ideographic space, en quad)
        sp = rng.choice(["\u00a0", "\u3000", "\u2000", "\u2009"])
        line = line.replace(" ", sp, rng.randint(1, 3))
    if hz.get("diffish") and rng.random() < 0.2:
        line = rng.choice(hz.get("diffish_pool") or DIFFISH) + line
    if hz.get("indent") and rng.random() < 0.3:
        line = " " * rng.choice([2, 4, 8]) + line
    return line


def join_lines(lines, eol="\n", final_newline=True):
    if not lines:
        return ""
    s = eol.join(lines)
    return s + (eol if final_newline else "")


def file_style(content):
    """(eol, has_final_newline) of existing content so edits keep the file's style."""
    if not content:
        return "\n", True
    eol = "\r\n" if "\r\n" in content else "\n"
    return eol, content.endswith("\n")


def ai_positions(ex, lines):
    return [i for i, ln in enumerate(lines)
            if (ex.ledger.who(ln) or {HUMAN}) != {HUMAN}]


def pick_pos(rng, ex, lines, bias):
    """Insertion index according to a position class."""
    n = len(lines)
    ai = ai_positions(ex, lines)
    if bias == "top":
        return 0
    if bias == "bottom":
        return n
    if ai and bias == "above_ai":
        return rng.randint(0, ai[0])
    if ai and bias == "below_ai":
        return rng.randint(ai[-1] + 1, n)
    if ai and bias == "inside_ai":
        return rng.choice(ai) + rng.choice([0, 1])
    return rng.randint(0, n)


EDIT_KINDS = ["insert", "insert", "insert", "delete", "replace", "modify", "modify_part", "modify_part", "reindent", "append"]
USPACES = "\u00a0\u3000\u2000\u2001\u2002\u2003\u2004\u2005\u2006\u2007\u2008\u2009\u200a"
POS_CLASSES = ["top", "bottom", "above_ai", "below_ai", "inside_ai", "any", "any"]


def mutate(rng, ex, content, who, hazards=None, kinds=None, pos_classes=None, max_block=4):
    """Return (new_content, description) for one edit of `content` by `who`."""
    eol, fnl = file_style(content)
    hz = hazards or {}
    if content is None:
        content = ""
        if hz.get("crlf") and rng.random() < 0.3:
            eol = "\r\n"
    lines = split_lines(content)
    kinds = kinds or EDIT_KINDS
    kind = rng.choice(kinds)
    if not lines and kind not in ("insert", "append"):
        kind = "insert"
    bias = rng.choice(pos_classes or POS_CLASSES)
    k = rng.randint(1, max_block)
    desc = {"kind": kind, "pos": bias, "who": who}
    if kind in ("insert", "append"):
        pos = len(lines) if kind == "append" else pick_pos(rng, ex, lines, bias)
        block = [new_line(rng, ex, hz) for _ in range(k)]
        lines[pos:pos] = block
        desc.update(at=pos, n=k)
    elif kind == "delete":
        pos = min(pick_pos(rng, ex, lines, bias), len(lines) - 1)
        k = min(k, len(lines) - pos)
        del lines[pos:pos + k]
        desc.update(at=pos, n=k)
    elif kind == "replace":
        pos = min(pick_pos(rng, ex, lines, bias), len(lines) - 1)
        k = min(k, len(lines) - pos)
        m = rng.randint(1, max_block)
        lines[pos:pos + k] = [new_line(rng, ex, hz) for _ in range(m)]
        desc.update(at=pos, n=k, m=m)
    elif kind == "modify":
        # intra-line: keep the id, change the words (a substantive change)
        idxs = sorted(rng.sample(range(len(lines)), min(k, len(lines))))
        for i in idxs:
            parts = lines[i].split(" ")
            lines[i] = " ".join(parts[:1] + ["m%d" % ex.fresh_id()] + parts[1:2] + [words(rng, 2)])
        desc.update(lines=idxs)
    elif kind == "modify_part":
        # intra-line, one region only (begin / middle / end): lines collect tokens of several ages
        idxs = sorted(rng.sample(range(len(lines)), min(k, len(lines))))
        for i in idxs:
            parts = lines[i].split(" ")
            tok = "p%d" % ex.fresh_id()
            where = rng.choice(["end", "end", "begin", "middle", "replace_one"])
            if where == "end":
                parts.append(tok)
            elif where == "begin" and len(parts) > 1:
                parts.insert(1, tok)
            elif where == "middle" and len(parts) > 2:
                parts.insert(len(parts) // 2 + 1, tok)
            elif len(parts) > 1:
                parts[rng.randint(1, len(parts) - 1)] = tok
            else:
                parts.append(tok)
            lines[i] = " ".join(parts)
        desc.update(lines=idxs)
    elif kind == "reindent":
        # whitespace-only: must not change any author
        pos = min(pick_pos(rng, ex, lines, bias), len(lines) - 1)
        k = min(k, len(lines) - pos)
        for i in range(pos, pos + k):
            if lines[i].strip():
                lines[i] = "    " + lines[i].lstrip() if rng.random() < 0.7 else lines[i].lstrip()
        desc.update(at=pos, n=k)
    elif kind == "wsnorm":
        # whitespace-only: normalise Unicode blanks to ASCII spaces (must not change any author)
        n = 0
        for i in range(len(lines)):
            if any(c in USPACES for c in lines[i]):
                lines[i] = "".join(" " if c in USPACES else c for c in lines[i])
                n += 1
        desc.update(n=n)
    elif kind == "move":
        # cut a block and paste it elsewhere, sometimes also deleting the line just before the block
        if len(lines) >= 4:
            k = min(k + 2, len(lines) - 2)
            src = rng.randint(0, len(lines) - k)
            block = lines[src:src + k]
            drop_before = rng.random() < 0.5 and src > 0
            rest = lines[:src - 1 if drop_before else src] + lines[src + k:]
            dst = rng.randint(0, len(rest))
            lines = rest[:dst] + block + rest[dst:]
            cut = src - 1 if drop_before else src
            jumped = rest[min(cut, dst):max(cut, dst)]     # moving A over B is also moving B over A
            desc.update(at=src, n=k, to=dst, drop_before=drop_before, moved=block + jumped)
    if hz.get("no_final_newline") and rng.random() < 0.25:
        fnl = not fnl
    return join_lines(lines, eol, fnl), desc


def initial_files(rng, ex, n_files, n_lines, hazards=None, names=None):
    hz = hazards or {}
    pool = list(names or PLAIN_NAMES)
    if hz.get("names"):
        pool += HAZARD_NAMES
    rng.shuffle(pool)
    files = {}
    for p in pool[:n_files]:
        k = rng.randint(0, n_lines)
        eol = "\r\n" if hz.get("crlf") and rng.random() < 0.3 else "\n"
        lines = [new_line(rng, ex, {k2: v for k2, v in hz.items() if k2 != "diffish"}) for _ in range(k)]
        files[p] = join_lines(lines, eol, not (hz.get("no_final_newline") and rng.random() < 0.3))
    return files
