"""Batch runner: seeded search over simulated runs, minimisation, replay, evidence."""
import hashlib
import json
import multiprocessing as mp
import os
import random
import shutil
import subprocess
import sys
import time
import traceback

VERIF = os.path.dirname(os.path.dirname(os.path.abspath(__file__)))
SCRATCH_BASE = "/dev/shm" if os.path.isdir("/dev/shm") else os.environ.get("TMPDIR", "/tmp")


def run_seed(seed, prop, tier, index):
    h = hashlib.sha256(("%d/%s/%s/%d" % (seed, prop, tier, index)).encode()).digest()
    return int.from_bytes(h[:8], "big")


def scratch_root():
    # (fixed width: payloads and outputs that contain the scratch path then have the same length in every run)
    return os.path.join(SCRATCH_BASE, "gaisim.%07d" % os.getpid())


_worker_root = None


def _worker_init(base):
    global _worker_root
    _worker_root = os.path.join(base, "w%07d" % os.getpid())
    os.makedirs(_worker_root, exist_ok=True)


def _fresh_dir(tag):
    d = os.path.join(_worker_root, tag)
    shutil.rmtree(d, ignore_errors=True)
    for extra in os.listdir(_worker_root):
        if extra.startswith(tag + "."):
            shutil.rmtree(os.path.join(_worker_root, extra), ignore_errors=True)
    os.makedirs(d)
    return d


def _task(args):
    """One simulated run.  Returns a JSON-able result dict."""
    from .props import get_prop
    prop_id, tier, seed, index, mode, payload = args
    prop = get_prop(prop_id)
    root = _fresh_dir("run")
    t0 = time.time()
    try:
        if mode == "gen":
            rs = run_seed(seed, prop_id, tier, index)
            rng = random.Random(rs)
            from . import engine as _engine
            _engine.NEXT_REPO_DIR = _engine.REPO_DIRS[(rs >> 17) % len(_engine.REPO_DIRS)]
            res = prop.run_generated(rng, root, tier, index)
            res["run_seed"] = rs
        else:
            from . import engine as _engine
            _engine.NEXT_REPO_DIR = None
            res = prop.run_trace(payload, root)
        res["index"] = index
        res["error"] = None
    except Exception:
        res = {"index": index, "error": traceback.format_exc(), "violation": None, "trace": payload}
    finally:
        shutil.rmtree(root, ignore_errors=True)
        for extra in os.listdir(_worker_root):
            shutil.rmtree(os.path.join(_worker_root, extra), ignore_errors=True)
    res["wall"] = time.time() - t0
    return res


class Pool:
    def __init__(self, workers):
        self.base = scratch_root()
        os.makedirs(self.base, exist_ok=True)
        self.workers = workers
        if workers <= 1:
            _worker_init(self.base)
            self.pool = None
        else:
            self.pool = mp.get_context("fork").Pool(workers, _worker_init, (self.base,))

    def imap(self, tasks):
        if self.pool is None:
            for t in tasks:
                yield _task(t)
        else:
            for r in self.pool.imap(_task, tasks, chunksize=1):
                yield r

    def close(self):
        if self.pool is not None:
            self.pool.terminate()
            self.pool.join()
        shutil.rmtree(self.base, ignore_errors=True)


def signature(v):
    return (v.get("monitor"), v.get("class"))


def minimise(pool, prop_id, trace, viol, budget_runs=160, budget_s=150):
    """Delta debugging over the op list (and init files): the same violation signature must
    persist.  Each candidate is a full re-execution in a fresh world."""
    from .props import get_prop
    prop = get_prop(prop_id)
    sig = signature(viol)
    t0 = time.time()
    used = [0]
    best = trace
    best_v = viol

    def attempt(cands):
        """run candidates in parallel; return first (in order) that still fails"""
        nonlocal best, best_v
        if not cands or used[0] >= budget_runs or time.time() - t0 > budget_s:
            return False
        used[0] += len(cands)
        tasks = [(prop_id, "replay", 0, i, "replay", c) for i, c in enumerate(cands)]
        for r in pool.imap(tasks):
            v = r.get("violation")
            if v and signature(v) == sig and not r.get("error"):
                best, best_v = cands[r["index"]], v
                return True
        return False

    # truncate after the violating step
    step = viol.get("step")
    if isinstance(step, int) and step + 1 < len(best["ops"]):
        cand = dict(best, ops=best["ops"][:step + 1])
        attempt([cand])
    n = 2
    while len(best["ops"]) >= 2 and used[0] < budget_runs and time.time() - t0 < budget_s:
        ops = best["ops"]
        chunk = max(1, len(ops) // n)
        cands = []
        for s in range(0, len(ops), chunk):
            cands.append(dict(best, ops=ops[:s] + ops[s + chunk:]))
        cands = [c for c in cands if prop.trace_valid(c)]
        if attempt(cands):
            n = max(n - 1, 2)
        else:
            if chunk == 1:
                break
            n = min(len(ops), n * 2)
    # drop init files one at a time
    files = dict(best.get("init", {}).get("files", {}))
    for p in sorted(files):
        if len(files) <= 1:
            break
        f2 = {k: v for k, v in files.items() if k != p}
        cand = dict(best, init=dict(best["init"], files=f2))
        if attempt([cand]):
            files = f2
    # property-specific simplifications
    for cand in prop.simplifications(best):
        attempt([cand])
    return best, best_v, used[0]


def build_all():
    """Rebuild git-ai (guard on) from /repo's working tree and the native helpers."""
    env = dict(os.environ)
    env["CARGO_NET_OFFLINE"] = "true"
    env["CARGO_TARGET_DIR"] = os.path.join(VERIF, ".build/gitai")
    env["RUSTFLAGS"] = "--cfg git_ai_verif"
    r = subprocess.run(["cargo", "build", "--offline", "--bin", "git-ai"], cwd="/repo", env=env,
                       stdout=subprocess.PIPE, stderr=subprocess.STDOUT)
    if r.returncode != 0:
        sys.stdout.write(r.stdout.decode("utf-8", "replace")[-4000:])
        return False
    env2 = dict(os.environ)
    env2["CARGO_NET_OFFLINE"] = "true"
    env2["CARGO_TARGET_DIR"] = os.path.join(VERIF, ".build/sim")
    r = subprocess.run(["cargo", "build", "--offline", "--release"], cwd=os.path.join(VERIF, "sim"),
                       env=env2, stdout=subprocess.PIPE, stderr=subprocess.STDOUT)
    if r.returncode != 0:
        sys.stdout.write(r.stdout.decode("utf-8", "replace")[-4000:])
        return False
    return True


def repo_tree_id():
    try:
        r = subprocess.run(["git", "-C", "/repo", "rev-parse", "HEAD"], stdout=subprocess.PIPE)
        head = r.stdout.decode().strip()
        r = subprocess.run(["git", "-C", "/repo", "status", "--porcelain", "--untracked-files=no"],
                           stdout=subprocess.PIPE)
        dirty = bool(r.stdout.strip())
        return head + ("+dirty" if dirty else "")
    except Exception:
        return "unknown"


def load_known():
    p = os.path.join(VERIF, "known_findings.json")
    if not os.path.exists(p):
        return {"findings": [], "fixed": []}
    with open(p) as f:
        return json.load(f)


def check(prop_id, tier, seed, workers=None, budget_s=None, max_runs=None, verbose=True):
    from .props import get_prop
    from . import known
    prop = get_prop(prop_id)
    workers = workers or int(os.environ.get("VERIF_WORKERS", "16"))
    n_runs = max_runs or prop.runs(tier)
    budget_s = budget_s or float(os.environ.get("VERIF_BUDGET_S", prop.budget_s(tier)))
    t0 = time.time()
    pool = Pool(workers)
    results = []
    violations = []
    errors = []
    known_db = load_known()
    known_hits = {}
    known_runs = 0
    unreproduced = []
    try:
        # 1. targeted scenarios of listed findings (DESIGN §5): still failing -> KNOWN-FINDING
        for kf in known_db.get("findings", []):
            if kf["property"] != prop_id:
                continue
            path = os.path.join(VERIF, kf["replay"])
            with open(path) as f:
                tr = json.load(f)
            r = next(iter(pool.imap([(prop_id, "replay", 0, 0, "replay", tr)])))
            if r.get("error"):
                errors.append(r["error"])
            elif r.get("violation") and known.matches(kf, r["trace"], r["violation"]):
                known_hits[kf["id"]] = kf
        # 1b. hand-kept scenarios (regressions of repaired defects, named corner cases)
        sdir = os.path.join(VERIF, "scenarios", prop_id)
        if os.path.isdir(sdir):
            names = sorted(n for n in os.listdir(sdir) if n.endswith(".json"))
            traces = []
            for n in names:
                with open(os.path.join(sdir, n)) as f:
                    traces.append(json.load(f))
            for r in pool.imap([(prop_id, "replay", 0, i, "replay", t) for i, t in enumerate(traces)]):
                r["scenario"] = names[r["index"]]
                r["index"] = -1 - r["index"]
                results.append(r)
                if r.get("error"):
                    errors.append(r["error"])
                elif r.get("violation"):
                    violations.append(r)
        # 2. the seeded search
        tasks = ((prop_id, tier, seed, i, "gen", None) for i in range(n_runs))
        stopped_early = False
        for r in pool.imap(tasks):
            results.append(r)
            for kid in r.get("known_ids") or []:
                for kf in known_db.get("findings", []):
                    if kf["id"] == kid:
                        known_hits[kid] = kf
            if r.get("error"):
                errors.append(r["error"])
                if len(errors) > 5:
                    break
            elif r.get("violation"):
                if not os.environ.get("GAISIM_SURVEY"):
                    # a run that fails exactly as a listed finding (classification-only classes have no generator
                    # gate) is recorded as such and does not use up the budget of violations to triage
                    kf0 = known.classify(known_db, prop_id, r["trace"], r["violation"])
                    if kf0 is not None:
                        known_hits[kf0["id"]] = kf0
                        known_runs += 1
                        continue
                violations.append(r)
                if os.environ.get("GAISIM_SURVEY"):
                    v = r["violation"]
                    print("SURVEY", r["index"], r["trace"].get("cfg", {}).get("families"), r["trace"].get("world", {}).get("mode"),
                          v.get("monitor"), v.get("class"), "step", v.get("step"),
                          (r["trace"]["ops"][v["step"]].get("argv") if isinstance(v.get("step"), int) and v["step"] < len(r["trace"]["ops"]) else None),
                          json.dumps(v.get("detail"))[:200], "OPS:", " ; ".join(
                              (o["op"] + ":" + (o.get("who") or "") + ":" + ((o.get("desc") or {}).get("kind") or "") + ":" + ((o.get("desc") or {}).get("pos") or "")) if o["op"] == "edit" else (o["op"] if o["op"] != "git" else " ".join(o["argv"][:3]))
                              for o in r["trace"]["ops"]))
                    sys.stdout.flush()
                elif len(violations) >= 8:
                    stopped_early = True
                    break
            if time.time() - t0 > budget_s:
                stopped_early = True
                break
        # 3. triage: minimise, classify against known findings
        reported = []
        seen_sigs = set()
        for r in ([] if os.environ.get("GAISIM_SURVEY") else violations):
            v = r["violation"]
            kf = known.classify(known_db, prop_id, r["trace"], v)
            if kf is not None:
                known_hits[kf["id"]] = kf
                continue
            if signature(v) in seen_sigs and len(reported) >= 1:
                continue
            seen_sigs.add(signature(v))
            trace, v2, used = minimise(pool, prop_id, r["trace"], v)
            # a violation is only reported if replaying its trace in a fresh world reproduces it
            rr = next(iter(pool.imap([(prop_id, "replay", 0, 0, "replay", trace)])))
            if rr.get("error") or not rr.get("violation") or signature(rr["violation"]) != signature(v2):
                unreproduced.append({"index": r["index"], "signature": list(signature(v2))})
                continue
            kf = known.classify(known_db, prop_id, trace, v2)
            if kf is not None:
                known_hits[kf["id"]] = kf
                continue
            reported.append((r, trace, v2, used))
            if len(reported) >= 3:
                break
    finally:
        pool.close()

    wall = time.time() - t0
    replay_paths = []
    os.makedirs(os.path.join(VERIF, "replays"), exist_ok=True)
    for r, trace, v, used in reported:
        out = dict(trace)
        out["v"] = 1
        out["property"] = prop_id
        out["tier"] = tier
        out["seed"] = seed
        out["run_index"] = r["index"]
        out["run_seed"] = r.get("run_seed")
        out["repo_tree"] = repo_tree_id()
        out["violation"] = v
        out["minimiser_runs"] = used
        digest = hashlib.sha256(json.dumps(out, sort_keys=True).encode()).hexdigest()[:10]
        path = os.path.join(VERIF, "replays", "%s-%d-%s.json" % (prop_id, seed, digest))
        with open(path, "w") as f:
            json.dump(out, f, indent=1, sort_keys=True)
        replay_paths.append(path)

    write_evidence(prop, prop_id, tier, seed, results, wall, len(reported), sorted(known_hits), errors)

    for kid in sorted(known_hits):
        kf = known_hits[kid]
        print("KNOWN-FINDING: property=%s %s: %s" % (prop_id, kf["id"], kf["what"]))
    for (r, trace, v, used), path in zip(reported, replay_paths):
        print("VIOLATION property=%s replay=%s" % (prop_id, path))
        if verbose:
            print("  monitor=%s class=%s step=%s ops=%d (minimised with %d re-executions)" % (
                v.get("monitor"), v.get("class"), v.get("step"), len(trace["ops"]), used))
            print("  detail=%s" % json.dumps(v.get("detail"), sort_keys=True)[:1500])
    if unreproduced:
        print("HARNESS-NOTE: %d violating run(s) did not reproduce on replay and were not reported: %s" % (
            len(unreproduced), json.dumps(unreproduced)[:400]))
    if errors:
        print("HARNESS-ERROR (%d):\n%s" % (len(errors), errors[0][-3000:]))
        return 2
    n_ok = len([r for r in results if not r.get("violation")])
    print("%s %s seed=%d: %d runs, %d clean, %d violating runs (%d reported, %d runs in %d known classes), %.1fs" % (
        prop_id, tier, seed, len(results), n_ok, len(violations), len(reported), known_runs, len(known_hits), wall))
    return 1 if reported else 0


def write_evidence(prop, prop_id, tier, seed, results, wall, n_viol, known_ids, errors):
    ops, probes, faults = {}, {}, {}
    distinct = set()
    sim_ms = 0
    evals = 0
    samples = []
    components = {}
    for r in results:
        if r.get("error"):
            continue
        for k, v in (r.get("ops") or {}).items():
            ops[k] = ops.get(k, 0) + v
        for k, v in (r.get("probes") or {}).items():
            probes[k] = probes.get(k, 0) + v
        for k, v in (r.get("faults") or {}).items():
            faults[k] = faults.get(k, 0) + v
        sim_ms += r.get("sim_ms", 0)
        evals += r.get("evals", 1)
        if r.get("distinct_set") is not None:
            distinct.update(r["distinct_set"])
        elif r.get("nontrivial") and r.get("abstract"):
            distinct.add(r["abstract"])
        if len(samples) < 3 and r.get("nontrivial") and r.get("sample"):
            samples.append(r["sample"])
    if not samples:
        samples = [r.get("sample") for r in results[:2] if r.get("sample")] or ["(no run completed)"]
    n = len(results)
    ev = {
        "property_id": prop_id,
        "tier": tier,
        "seed": seed,
        "level": prop.level,
        "wall_s": round(wall, 2),
        "violations": n_viol,
        "coverage": {
            "evaluations": max(evals, n),
            "tasks": n,
            "distinct_nontrivial": len(distinct),
            "rule": prop.rule,
            "samples": samples,
            "runs_per_hour": int(n / wall * 3600) if wall > 0 else 0,
            "seeds": {"verif_seed": seed, "first_run_index": 0, "last_run_index": n - 1,
                      "derivation": "run_seed = sha256(VERIF_SEED/property/tier/index)[:8]"},
            "sim_time_covered_s": sim_ms // 1000,
            "ops_executed": dict(sorted(ops.items())),
            "faults_fired": dict(sorted(faults.items())),
            "probes": dict(sorted(probes.items())),
            "probes_at_zero": sorted(p for p in prop.expected_probes if not probes.get(p)),
            "components": {
                "git-ai binary (all of src/)": "real, built from /repo working tree with --cfg git_ai_verif",
                "git 2.39.5": "real (reached through the simgit stand-in when faults/schedules are on)",
                "file system": "real tmpfs; torn/failed journal writes injected at guarded points",
                "agents / human / user hooks": "stubs driven by the simulator",
                "clock": "simulated (GIT_*_DATE, GIT_AI_VERIF_NOW_MS)",
            },
            "known_findings_confirmed": known_ids,
            "harness_errors": len(errors),
            "repo_tree": repo_tree_id(),
        },
        "assumptions": prop.assumptions,
    }
    os.makedirs(os.path.join(VERIF, "evidence"), exist_ok=True)
    with open(os.path.join(VERIF, "evidence", "%s.json" % prop_id), "w") as f:
        json.dump(ev, f, indent=1, sort_keys=True)


def replay(path, workers=1):
    from .props import get_prop
    with open(path) as f:
        trace = json.load(f)
    prop_id = trace["property"]
    pool = Pool(1)
    try:
        r = next(iter(pool.imap([(prop_id, "replay", 0, 0, "replay", trace)])))
    finally:
        pool.close()
    if r.get("error"):
        print("HARNESS-ERROR:\n" + r["error"])
        return 2
    v = r.get("violation")
    want = trace.get("violation")
    if v:
        print("VIOLATION property=%s replay=%s" % (prop_id, path))
        print("  monitor=%s class=%s step=%s" % (v.get("monitor"), v.get("class"), v.get("step")))
        print("  detail=%s" % json.dumps(v.get("detail"), sort_keys=True)[:3000])
        if want and signature(want) != signature(v):
            print("  NOTE: recorded signature was %s" % (signature(want),))
        return 1
    print("replay of %s: no violation" % path)
    return 0 if not want else 2
