"""Scenario execution: concrete operations applied to a World, with the Ledger kept alongside.

A *trace* is a JSON object {"world": {...}, "init": {...}, "sessions": [...], "ops": [...]}.
Ops are concrete (full file contents, full argv), so re-executing a trace never needs the
generator that produced it; that is what replay and minimisation rely on.
"""
import hashlib
import json
import os

from .ledger import Ledger, HUMAN, norm, split_lines, _uid as _uid_re
from .world import World


def sha(s):
    if isinstance(s, str):
        s = s.encode("utf-8", "replace")
    return hashlib.sha256(s).hexdigest()[:16]


REPO_DIRS = ["r0", "r0", "r0", "r0", "r0", "r0", "my repo", "r0-\u00fcn\u00ef-\u65e5\u672c", "w\u00f6rk tree (1)", "r0"]
NEXT_REPO_DIR = None     # set by the runner per generated run (a function of the run seed); replays read it from the trace


class Exec:
    def __init__(self, root, trace):
        self.trace = trace
        if "repo_dir" not in trace.setdefault("world", {}):
            # the directory name of the repository is part of the concrete world (spaces, non-ASCII characters)
            trace["world"]["repo_dir"] = os.environ.get("GAISIM_REPO_DIR") or NEXT_REPO_DIR or "r0"
        wcfg = dict(trace.get("world", {}))
        self.w = World(root, mode=wcfg.get("mode", "wrapper"),
                       prompt_storage=wcfg.get("prompt_storage", "default"),
                       use_simgit=wcfg.get("use_simgit", False),
                       gitconfig=wcfg.get("gitconfig"),
                       config_extra=wcfg.get("config_extra"),
                       object_format=wcfg.get("object_format"))
        self.ledger = Ledger()
        self.sessions = list(trace.get("sessions", []))
        self.events = []
        self.repos = {}
        self.op_counts = {}
        self.probes = {}
        self.faults = {}
        self.next_id = trace.get("next_id", 1)
        self.gen_state = {}
        self.full_digests = False
        self.init_done = False
        from .hist import SEQED
        with open(os.path.join(root, "seqed.py"), "w") as f:
            f.write(SEQED)
        os.chmod(os.path.join(root, "seqed.py"), 0o755)

    # ------------------------------------------------------------------ setup
    def init(self):
        init = self.trace.get("init", {})
        w = self.w
        repo = w.init_repo(self.trace["world"].get("repo_dir") or "r0")
        self.repos["r0"] = repo
        for p, c in sorted(init.get("files", {}).items()):
            w.write(repo, p, c)
            self.ledger.seed(c)
        for p, c in sorted(init.get("attributes", {}).items()):
            w.write(repo, p, c)
        for p in init.get("exec_files") or []:
            # a script tracked with the executable bit (mode 100755)
            if os.path.isfile(os.path.join(repo, p)):
                os.chmod(os.path.join(repo, p), 0o755)
        if init.get("files"):
            r = w.git(repo, "add", "-A")
            r = w.git(repo, "commit", "-q", "-m", "base")
            assert r.code == 0, r
        w.tick(1000)
        self.init_done = True

    def repo(self, op):
        return self.repos[op.get("repo", "r0")]

    def probe(self, name, n=1):
        self.probes[name] = self.probes.get(name, 0) + n

    def fault(self, name, n=1):
        self.faults[name] = self.faults.get(name, 0) + n

    def fresh_id(self):
        n = self.next_id
        self.next_id += 1
        return n

    # ------------------------------------------------------------------ ops
    def apply(self, op):
        """Execute one concrete op.  Returns a dict describing what happened."""
        w = self.w
        kind = op["op"]
        self.op_counts[kind] = self.op_counts.get(kind, 0) + 1
        w.tick(op.get("dt", 1000))
        repo = self.repo(op)
        env = op.get("env")
        if env:
            env = {k: v.replace("{ROOT}", w.root) for k, v in env.items()}
        res = {"kind": kind}
        if kind == "edit":
            who = op["who"]
            files = op["files"]
            paths = sorted(files)
            olds = {p: w.read(repo, p) for p in paths}
            codes = []
            claude = who != HUMAN and op.get("agent") == "claude"
            if claude:
                if op.get("transcript"):
                    w.claude_append_transcript(who, op["transcript"])
                for p1 in paths:
                    codes.append(w.ckpt_claude(repo, [p1], who, "PreToolUse", env=env).code)
            elif (who != HUMAN and not op.get("skip_pre_ckpt")) or op.get("pre_ckpt"):
                codes.append(w.ckpt_human(repo, paths, env=env).code)
            dirty = who != HUMAN and not claude and op.get("dirty") and all(files[p] is not None for p in paths)
            if dirty:
                # the agent reports its edit while the editor buffer is still unsaved: the checkpoint carries
                # the buffer (dirty_files), the disk still has the old text; the editor saves right afterwards
                w.tick(op.get("dt2", 7))
                r = w.ckpt_ai(repo, paths, who, transcript=op.get("transcript"), model=op.get("model", "m1"),
                              tool=op.get("tool", "simagent"), env=env, dirty={p: files[p] for p in paths})
                codes.append(r.code)
                res["err"] = r.err[-400:]
            for p in paths:
                c = files[p]
                if c is None:
                    try:
                        os.remove(os.path.join(repo, p))
                    except OSError:
                        pass
                else:
                    w.write(repo, p, c)
                self.ledger.edit(olds[p] or "", c or "", who)
                moved = (op.get("desc") or {}).get("moved") or []
                committed = set()
                if moved:
                    hr0 = w.raw_git(repo, "show", "HEAD:" + p)
                    committed = {norm(x) for x in split_lines(hr0.out)} if hr0.code == 0 else set()
                    # (a line that is an intra-line modification of a committed line still carries that line's id:
                    # most of its tokens are the committed author's, and a move may hand the line back to them)
                    committed_ids = set(_uid_re.findall(hr0.out)) if hr0.code == 0 else set()
                for ln in moved:
                    # a moved line is not a changed line; its writer or the mover may be credited - and
                    # the human, when the line was already committed (its working-log attribution is
                    # gone and git blame assigns the moved line to the new commit)
                    if self.ledger.who(ln) is not None:
                        was_committed = norm(ln) in committed or any(u in committed_ids for u in _uid_re.findall(ln))
                        self.ledger.authors[norm(ln)].update((who, HUMAN) if was_committed else (who,))
                if olds[p] and c:
                    hr = w.raw_git(repo, "show", "HEAD:" + p)
                    if hr.code == 0:
                        self.ledger.ws_change_of_committed(olds[p], c, hr.out, who)
            if claude:
                w.tick(op.get("dt2", 7))
                for p1 in paths:
                    r = w.ckpt_claude(repo, [p1], who, "PostToolUse", env=env)
                    codes.append(r.code)
                res["err"] = r.err[-400:]
            elif who != HUMAN and not dirty:
                w.tick(op.get("dt2", 7))
                if op.get("crash_plan"):
                    # the first delivery of this report dies at a journal / snapshot point (crash, or a torn write that
                    # leaves a prefix on disk); the agent delivers it again
                    rc = w.ckpt_ai(repo, paths, who, transcript=op.get("transcript"), model=op.get("model", "m1"),
                                   tool=op.get("tool", "simagent"),
                                   env=dict(env or {}, GIT_AI_VERIF_PLAN=op["crash_plan"]))
                    self.fault("ckpt." + op["crash_plan"].split("=")[-1].split(":")[0])
                    if rc.code not in (0, None):
                        self.probe("ckpt_crash.fired")
                    w.tick(5)
                r = w.ckpt_ai(repo, paths, who, transcript=op.get("transcript"),
                              model=op.get("model", "m1"), tool=op.get("tool", "simagent"), env=env)
                codes.append(r.code)
                res["err"] = r.err[-400:]
            elif op.get("post_ckpt"):
                w.tick(op.get("dt2", 7))
                codes.append(w.ckpt_human(repo, paths, env=env).code)
            res["codes"] = codes
            res["code"] = max([abs(c) for c in codes] or [0])
        elif kind == "git":
            cwd = repo
            if op.get("cwd") == "/":
                cwd = "/"
            elif op.get("cwd") and os.path.isdir(os.path.join(repo, op["cwd"])):
                cwd = os.path.join(repo, op["cwd"])
            held = None
            if op.get("db_busy"):
                # fault: git-ai's own sqlite database is write-locked by another process for the whole command (every
                # insert into it fails with SQLITE_BUSY once the busy timeout has passed)
                dbp = os.path.join(w.home, ".git-ai", "internal", "db")
                if os.path.isfile(dbp):
                    import sqlite3
                    try:
                        held = sqlite3.connect(dbp, isolation_level=None, timeout=1)
                        held.execute("BEGIN IMMEDIATE")
                        self.fault("db.busy")
                    except sqlite3.Error:
                        held = None
            try:
                r = w.git(cwd, *[a.replace("{ROOT}", w.root).replace("{REPO}", repo) for a in op["argv"]], env=env,
                          stdin=(op.get("stdin") or "").encode() or None, mode=op.get("mode"))
            finally:
                if held is not None:
                    try:
                        held.execute("ROLLBACK")
                        held.close()
                    except Exception:
                        pass
            res.update(code=r.code, out=r.out, err=r.err, hang=r.hang)
        elif kind == "raw":
            r = w.raw_git(repo, *op["argv"], env=env)
            res.update(code=r.code, out=r.out, err=r.err)
        elif kind == "gitai":
            r = w.gitai(repo, *op["argv"], env=env, stdin=(op.get("stdin") or "").encode() or None)
            res.update(code=r.code, out=r.out, err=r.err, hang=r.hang)
        elif kind == "ckpt":
            if op["who"] == HUMAN:
                r = w.ckpt_human(repo, op["paths"], env=env)
            else:
                r = w.ckpt_ai(repo, op["paths"], op["who"], transcript=op.get("transcript"), env=env)
            res.update(code=r.code, err=r.err[-400:])
        elif kind == "resolve":
            # scripted conflict resolver: a human edit that removes the markers
            r = w.raw_git(repo, "diff", "--name-only", "--diff-filter=U", "-z")
            paths = sorted(p for p in r.out.split("\0") if p)
            res["paths"] = paths
            if op.get("pre_ckpt") and paths:
                # the person resolving announces the edit (keeps the run outside finding initial_positional)
                w.ckpt_human(repo, paths, env=env)
            for p in paths:
                old = w.read(repo, p) or ""
                new = resolve_conflict(old, op.get("strategy", "union"))
                w.write(repo, p, new)
                self.ledger.edit(old, new, HUMAN)
                # lines inside a conflict region are (re)written by the resolver: crediting the
                # human for them is acceptable, crediting an AI session that did not write them is not
                self.ledger.resolver_touched(conflict_region_lines(old))
                w.raw_git(repo, "add", "--", p)
            res["code"] = 0
        elif kind == "setup_remote":
            # a bare remote next to the repository, seeded from the current branch (plain git)
            remote = os.path.join(w.root, "remote.git")
            os.makedirs(remote, exist_ok=True)
            w.raw_git(remote, "init", "-q", "--bare", "-b", "main")
            # a relative URL: merge messages ("Merge branch 'main' of ../remote") must not carry the scratch path,
            # or twin and pair worlds would get different commit ids
            w.raw_git(repo, "remote", "add", "origin", "../remote.git")
            r = w.raw_git(repo, "push", "-q", "-u", "origin", "main")
            res.update(code=r.code, err=r.err[-300:])
        elif kind == "remote_commit":
            # somebody else pushes a commit to the remote (plain git, throw-away clone)
            remote = os.path.join(w.root, "remote.git")
            tmp = os.path.join(w.root, "other-clone")
            if not os.path.isdir(tmp):
                w.raw_git(w.root, "clone", "-q", remote, tmp)
            w.raw_git(tmp, "pull", "-q", "--ff-only", "origin", "main")
            before = w.read(tmp, op["path"]) or ""
            w.write(tmp, op["path"], op["content"])
            self.ledger.edit(before, op["content"], HUMAN)
            w.raw_git(tmp, "add", "-A")
            w.raw_git(tmp, "commit", "-q", "-m", op.get("msg", "upstream"))
            r = w.raw_git(tmp, "push", "-q", "origin", "main")
            res.update(code=r.code, err=r.err[-300:])
        elif kind == "add_worktree":
            # a linked worktree of r0 on a new branch (its private git-ai state lives under .git/ai/worktrees/<name>)
            path = os.path.join(w.root, op["name"])
            r = w.raw_git(self.repos["r0"], "worktree", "add", "-q", "-b", op["branch"], path, op.get("start", "HEAD"))
            self.repos[op["name"]] = path
            res.update(code=r.code, err=r.err[-300:])
        elif kind == "server_merge":
            # the hosting service merges a pushed branch with PLAIN git: squash merge (one new commit)
            # or rebase merge (the branch's commits re-created on top of main); then main is published
            remote = os.path.join(w.root, "remote.git")
            srv = os.path.join(w.root, "server-clone")
            if not os.path.isdir(srv):
                w.raw_git(w.root, "clone", "-q", remote, srv)
            w.raw_git(srv, "fetch", "-q", "origin")
            w.raw_git(srv, "checkout", "-q", "-B", "main", "origin/main")
            head_ref = "origin/" + op["head_ref"]
            info = {"base_sha": w.head(srv), "head_sha": w.head(srv, head_ref), "how": op["how"]}
            if op["how"] == "squash":
                r = w.raw_git(srv, "merge", "--squash", head_ref)
                if r.code == 0:
                    r = w.raw_git(srv, "commit", "-q", "-m", "squash merge of %s" % op["head_ref"])
                else:
                    w.raw_git(srv, "reset", "-q", "--hard")
            else:
                mb = w.raw_git(srv, "merge-base", "HEAD", head_ref).out.strip()
                r = w.raw_git(srv, "cherry-pick", "%s..%s" % (mb, head_ref))
                if r.code != 0:
                    w.raw_git(srv, "cherry-pick", "--abort")
            info["ok"] = r.code == 0
            if r.code == 0:
                info["merge_sha"] = w.head(srv)
                r = w.raw_git(srv, "push", "-q", "origin", "main")
            self.gen_state["ci"] = info
            res.update(code=r.code, err=r.err[-300:])
        elif kind == "ci_run":
            # a CI job: fresh PLAIN clone of the remote, then git-ai's CI entry point
            info = self.gen_state.get("ci") or {}
            res["code"] = 0
            if info.get("ok"):
                remote = os.path.join(w.root, "remote.git")
                ci = os.path.join(w.root, "ci-clone")
                if os.path.isdir(ci):
                    import shutil
                    shutil.rmtree(ci)
                w.raw_git(w.root, "clone", "-q", remote, ci)
                self.repos["ci"] = ci
                if op.get("tool") == "squash_authorship":
                    w.raw_git(ci, "fetch", "-q", "origin", "+refs/notes/ai:refs/notes/ai")
                    r = w.gitai(ci, "squash-authorship", op["base_ref"], info["merge_sha"], info["head_sha"], env=env)
                else:
                    r = w.gitai(ci, "ci", "local", "merge", "--merge-commit-sha", info["merge_sha"],
                                "--base-ref", op["base_ref"], "--head-ref", op["head_ref"],
                                "--head-sha", info["head_sha"], "--base-sha", info["base_sha"], env=env)
                res.update(code=r.code, out=r.out, err=r.err[-600:], hang=r.hang, merge_sha=info["merge_sha"])
        elif kind == "bulk_notes":
            # a large pre-existing notes ref (two fan-out levels), built in one fast-import
            n = op.get("n", 70001)
            body = "synthetic note %d\n" % op.get("tag", 0)
            parts = ["blob\nmark :1\ndata %d\n%s\n" % (len(body), body),
                     "commit refs/notes/ai\ncommitter sim <sim@example.invalid> %d +0000\ndata 0\n" % (w.now_ms // 1000)]
            tip = w.raw_git(repo, "rev-parse", "--verify", "-q", "refs/notes/ai").out.strip()
            if tip:
                parts.append("from %s\n" % tip)
            ms = []
            for i in range(n):
                h = hashlib.sha1(("bulk-%d-%d" % (op.get("tag", 0), i)).encode()).hexdigest()
                ms.append("M 100644 :1 %s/%s/%s\n" % (h[:2], h[2:4], h[4:]))
            parts.append("".join(ms))
            parts.append("\n")
            r = w.raw_git(repo, "fast-import", "--quiet", stdin="".join(parts).encode())
            res.update(code=r.code, err=r.err[-300:])
        elif kind == "stage":
            # what `git add -p` produces: an index entry whose content is a chosen subset of hunks
            r = w.raw_git(repo, "hash-object", "-w", "--stdin", stdin=op["content"].encode("utf-8"))
            sha1 = r.out.strip()
            r2 = w.raw_git(repo, "update-index", "--add", "--cacheinfo", "100644,%s,%s" % (sha1, op["path"]))
            res.update(code=r.code or r2.code, err=r.err + r2.err)
        elif kind == "write_raw":
            # a file write outside any protocol (attributes files, hook scripts, corruption)
            w.write(op.get("root") and os.path.join(w.root, op["root"]) or repo, op["path"], op["content"])
            if op.get("chmod"):
                os.chmod(os.path.join(op.get("root") and os.path.join(w.root, op["root"]) or repo,
                                      op["path"]), op["chmod"])
            res["code"] = 0
        else:
            raise ValueError("unknown op kind %r" % kind)
        # (scratch paths differ from pool to pool: they are no part of what has to repeat)
        out_norm = (res.get("out", "") or "").replace(self.w.root, "{ROOT}")
        ev = [len(self.events), kind, res.get("code"), sha(out_norm),
              self.w.head(repo) if kind in ("git", "raw") else None]
        if self.full_digests:
            ev.append(state_digest(self.w, repo))
        self.events.append(ev)
        return res


def conflict_region_lines(text):
    out = []
    inside = False
    for ln in text.split("\n"):
        if ln.startswith("<<<<<<< "):
            inside = True
        elif ln.startswith(">>>>>>> ") and inside:
            inside = False
        elif inside and not (ln == "=======" or ln.startswith("||||||| ")):
            out.append(ln)
    return out


def resolve_conflict(text, strategy):
    out = []
    side = None
    for ln in text.split("\n"):
        if ln.startswith("<<<<<<< "):
            side = "ours"
            continue
        if ln.startswith("||||||| "):
            side = "base"
            continue
        if ln == "=======" and side:
            side = "theirs"
            continue
        if ln.startswith(">>>>>>> ") and side:
            side = None
            continue
        if side is None or strategy == "union" and side != "base" or strategy == side:
            out.append(ln)
    return "\n".join(out)


def state_digest(w, repo):
    """Digest of everything the determinism self-test compares (DESIGN A.4)."""
    from .oracle import Notes
    parts = []
    parts.append(w.raw_git(repo, "for-each-ref", "--format=%(refname) %(objectname)",
                           "refs/heads", "refs/tags", "refs/stash", "refs/remotes").out)
    parts.append(w.raw_git(repo, "ls-files", "-s").out)
    parts.append(w.raw_git(repo, "status", "--porcelain=v1").out)
    try:
        parts.append(json.dumps(Notes(w, repo).canonical_map(), sort_keys=True))
    except Exception as ex:  # pragma: no cover
        parts.append("notes-error %s" % ex)
    parts.append(json.dumps(working_log_digest(w, repo), sort_keys=True))
    if os.environ.get("GAISIM_DIGEST_PARTS") == "full":
        return parts
    if os.environ.get("GAISIM_DIGEST_PARTS"):
        return [sha(x) for x in parts]      # refs, index, status, notes, working logs
    return sha("\x00".join(parts))


def working_log_digest(w, repo):
    """Parsed (clock- and hash-map-order-free) view of .git/ai/working_logs."""
    base = os.path.join(w.ai_dir(repo), "working_logs")
    out = {}
    if not os.path.isdir(base):
        return out
    for d in sorted(os.listdir(base)):
        if d.startswith("old-"):
            continue
        entry = {}
        cp = os.path.join(base, d, "checkpoints.jsonl")
        if os.path.isfile(cp):
            cps = []
            with open(cp, "rb") as f:
                for ln in f.read().decode("utf-8", "replace").splitlines():
                    if not ln.strip():
                        continue
                    try:
                        j = json.loads(ln)
                    except ValueError:
                        cps.append("MALFORMED")
                        continue
                    ents = []
                    for e in j.get("entries", []):
                        la = sorted((a.get("start_line"), a.get("end_line"), a.get("author_id"))
                                    for a in e.get("line_attributions", []))
                        ents.append([e.get("file"), la])
                    cps.append([j.get("kind"), (j.get("agent_id") or {}).get("id"), sorted(ents)])
            entry["checkpoints"] = cps
        ini = os.path.join(base, d, "INITIAL")
        if os.path.isfile(ini):
            try:
                with open(ini) as f:
                    j = json.load(f)
                entry["initial"] = {p: sorted((a.get("start_line"), a.get("end_line"), a.get("author_id"))
                                             for a in v)
                                    for p, v in sorted(j.get("files", {}).items())}
            except (ValueError, OSError):
                entry["initial"] = "MALFORMED"
        out[d] = entry
    return out


def pending_attribution(w, repo):
    """Semantic view of pending (uncommitted) attribution: per working-log base, per file, the AI
    line attributions of the latest checkpoint entry for that file, plus INITIAL."""
    d = working_log_digest(w, repo)
    out = {}
    for base, entry in d.items():
        files = {}
        for cp in entry.get("checkpoints", []):
            if cp == "MALFORMED":
                files["<malformed>"] = True
                continue
            for f, la in cp[2]:
                files[f] = [x for x in la if x[2] != "human"]
        e = {"files": {f: v for f, v in sorted(files.items()) if v}}
        if entry.get("initial"):
            e["initial"] = entry["initial"]
        if e["files"] or e.get("initial"):
            out[base] = e
    return out


def pending_attribution_by_text(w, repo):
    """Pending (uncommitted) attribution as the TEXTS of the AI-attributed lines: per working-log base and file, the
    sorted list of (author, line text), where line numbers of the latest checkpoint entry are resolved against the
    content snapshot that entry refers to (blobs/<sha>) and INITIAL line numbers against the work tree.  Unlike the
    numeric view this does not change when a checkpoint merely catches up with what a person typed since."""
    base_dir = os.path.join(w.ai_dir(repo), "working_logs")
    out = {}
    if not os.path.isdir(base_dir):
        return out
    for d in sorted(os.listdir(base_dir)):
        if d.startswith("old-"):
            continue
        files = {}
        cp = os.path.join(base_dir, d, "checkpoints.jsonl")
        latest = {}
        if os.path.isfile(cp):
            with open(cp, "rb") as f:
                for ln in f.read().decode("utf-8", "replace").splitlines():
                    try:
                        j = json.loads(ln) if ln.strip() else None
                    except ValueError:
                        files["<malformed>"] = True
                        j = None
                    for e in (j or {}).get("entries", []):
                        latest[e.get("file")] = e
        for path, e in sorted(latest.items()):
            lines = None
            blob = os.path.join(base_dir, d, "blobs", e.get("blob_sha") or "-")
            if os.path.isfile(blob):
                with open(blob, "rb") as f:
                    lines = f.read().decode("utf-8", "replace").split("\n")
            got = []
            for a in e.get("line_attributions", []):
                if a.get("author_id") == "human":
                    continue
                for n in range(a.get("start_line", 0), a.get("end_line", 0) + 1):
                    text = lines[n - 1] if lines is not None and 0 < n <= len(lines) else "#%d" % n
                    got.append([a.get("author_id"), norm(text)])
            if got:
                files[path] = sorted(got)
        ini = os.path.join(base_dir, d, "INITIAL")
        if os.path.isfile(ini):
            try:
                with open(ini) as f:
                    j = json.load(f)
            except (ValueError, OSError):
                j = {"files": {"<malformed>": []}}
            for path, attrs in sorted(j.get("files", {}).items()):
                cur = (w.read(repo, path) or "").split("\n")
                got = []
                for a in attrs:
                    for n in range(a.get("start_line", 0), a.get("end_line", 0) + 1):
                        text = cur[n - 1] if 0 < n <= len(cur) else "#%d" % n
                        got.append([a.get("author_id"), norm(text)])
                if got and path not in files:
                    files["INITIAL:" + path] = sorted(got)
        if files:
            out[d] = files
    return out


def in_progress(w, repo):
    gd = w.raw_git(repo, "rev-parse", "--absolute-git-dir").out.strip()
    for name, kind in (("rebase-merge", "rebase"), ("rebase-apply", "rebase"), ("CHERRY_PICK_HEAD", "cherry-pick"),
                       ("MERGE_HEAD", "merge"), ("REVERT_HEAD", "revert")):
        if os.path.exists(os.path.join(gd, name)):
            return kind
    todo = os.path.join(gd, "sequencer", "todo")
    if os.path.exists(todo):
        # a multi-commit cherry-pick / revert that stopped between two commits (no *_HEAD file)
        try:
            with open(todo) as f:
                first = f.read(10)
        except OSError:
            first = ""
        return "revert" if first.startswith("revert") else "cherry-pick"
    return None
