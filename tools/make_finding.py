"""python3 tools/make_finding.py <prop> <predicate> <families> [tier] : search with all gates OFF except the
others, minimise the first violation the predicate accepts, write findings/<prop>-<predicate>.json"""
import sys, os, json
sys.path.insert(0, '/verif')
prop, pred, fams = sys.argv[1], sys.argv[2], sys.argv[3]
tier = sys.argv[4] if len(sys.argv) > 4 else 'quick'
os.environ['GAISIM_FAMILIES'] = fams
other = [g for g in (os.environ.get('ALL_GATES') or '').split(',') if g and g != pred]
os.environ['GAISIM_GATES'] = ','.join(other)
from gaisim import runner, known
pool = runner.Pool(16)
try:
    found = None
    for r in pool.imap(((prop, tier, 1, i, 'gen', None) for i in range(600))):
        v = r.get('violation')
        if v and not r.get('error'):
            t, v2, used = runner.minimise(pool, prop, r['trace'], v, budget_runs=120, budget_s=120)
            if known.PREDICATES[pred](t, v2):
                found = (t, v2)
                break
            print('skip: minimised violation not in class', v2.get('class'), len(t['ops']))
    if not found:
        print('nothing found'); sys.exit(1)
    t, v2 = found
    t = dict(t); t['property'] = prop; t['violation'] = v2
    os.makedirs('/verif/findings', exist_ok=True)
    out = '/verif/findings/%s-%s.json' % (prop, pred)
    json.dump(t, open(out, 'w'), indent=1, sort_keys=True)
    print('wrote', out, len(t['ops']), 'ops', v2.get('class'))
finally:
    pool.close()
