#!/usr/bin/env python3
"""Regenerates DESIGN.md §5.1 (repaired) and §5.2 (listed findings) from known_findings.json."""
import json
p = '/verif/DESIGN.md'
s = open(p).read()
d = json.load(open('/verif/known_findings.json'))
i0 = s.index('### 5.1 Repaired')
i1 = s.index('Each repair has a regression scenario under')
fixed = "".join("* `%s`\n" % f.replace('`', "'") for f in d['fixed'])
s = s[:i0] + "### 5.1 Repaired (%d `fix:` commits in `/repo`; the pinned suite is green with all of them: 3195/3195)\n\n" % len(d['fixed']) + fixed + "\n" + s[i1:]
i0 = s.index('| property | predicate | how kept out of the search | what fails |')
i1 = s.index('Notes on the classes:')
rows = ["| property | predicate | how kept out of the search | what fails |", "|---|---|---|---|"]
for kf in d['findings']:
    gate = kf.get('generator_gate')
    how = "classify only" if not gate else ("gate" if not kf.get('gate_scope') else "gate (only %s)" % ", ".join(kf['gate_scope']))
    rows.append("| %s | `%s` | %s | %s |" % (kf['property'], kf.get('predicate') or kf['id'], how, kf['what'].replace('|', '\\|')))
s = s[:i0] + "\n".join(rows) + "\n\n" + s[i1:]
open(p, 'w').write(s)
print(len(d['fixed']), "fixed,", len(d['findings']), "listed")
