#!/bin/bash
# mutant.sh build <id> <patch>   -> builds the patched git-ai (guard on) into /tmp/mutbin/<id>/git-ai
# mutant.sh suite <id> <patch>   -> runs the pinned suite (guard off) on the patched tree, prints comparison
# Uses the scratch worktree /tmp/mutv (synced to /repo HEAD first). Never touches /repo.
set -e
mode=$1; id=$2; patch=$3
cd /tmp/mutv
git checkout -q -- . ; git clean -fdq -e target ; git checkout -q --detach $(git -C /repo rev-parse HEAD)
git apply "$patch"
if [ "$mode" = build ]; then
  RUSTFLAGS="--cfg git_ai_verif" CARGO_TARGET_DIR=/tmp/mutv/target-verif cargo build --offline --bin git-ai 2>&1 | tail -2
  mkdir -p /tmp/mutbin/$id && cp /tmp/mutv/target-verif/debug/git-ai /tmp/mutbin/$id/git-ai
  echo "built /tmp/mutbin/$id/git-ai"
else
  cargo nextest run --workspace --no-fail-fast --tool-config-file pb:/w/lib/nextest.toml --profile pb --test-threads 8 --offline > /tmp/mutbin/$id.suite.log 2>&1 || true
  python3 /verif/tools/baseline_compare.py /tmp/mutv/target/nextest/pb/junit.xml | tee /tmp/mutbin/$id.suite.txt
fi
git checkout -q -- .
