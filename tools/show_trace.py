import json, sys
t=json.load(open(sys.argv[1]))
print('world',t.get('world'),'sessions',t.get('sessions'),'cfg',{k:v for k,v in t.get('cfg',{}).items()})
for p,c in t['init']['files'].items():
    print('INIT',p); print('   '+c.replace('\n','\n   '))
for i,o in enumerate(t['ops']):
    if o['op']=='edit':
        for p,c in o['files'].items():
            print(i,'EDIT',o['who'],p,o.get('desc'),'pre_ckpt' if o.get('pre_ckpt') else '')
            print('   '+(c or '<deleted>').replace('\n','\n   '))
    else:
        print(i,o['op'],o.get('argv'),{k:v for k,v in o.items() if k not in('op','argv','dt')})
print(json.dumps(t.get('violation'),indent=1))
