"""python3 tools/run_upto.py <trace.json> <n_ops> <dir>: execute the first n ops in <dir> and leave the world there for inspection"""
import sys, json, os, shutil
sys.path.insert(0,'/verif')
from gaisim.props import get_prop
t=json.load(open(sys.argv[1])); n=int(sys.argv[2]); root=sys.argv[3]
shutil.rmtree(root, ignore_errors=True); os.makedirs(root)
prop=get_prop(t['property'])
t={k:v for k,v in t.items() if k!='violation'}
ex=prop.make_exec(root,t)
ex.init(); prop.after_init(ex,t.get('cfg',{}))
for i,op in enumerate(t['ops'][:n]):
    prop.before_op(ex,i,op,t.get('cfg',{}))
    res=ex.apply(op)
    print(i,op['op'],op.get('argv') or '',res.get('code'),(res.get('err') or '')[-200:].replace('\n',' | '))
print('world at',root,'env: HOME=%s/home'%root)
