#!/bin/bash
# confirm_combo.sh <listfile> [worktree]: listfile has lines "<name> <patch>".  Patches that apply on top of each other
# are grouped greedily; the pinned suite (guard off) is run ONCE per group on the tree with the whole group applied and
# compared with BASELINE.json.  Result: /tmp/confirm/combo-<k>.txt = "names=[..] head=<sha> suite=[..]".
# (A test broken by one change is not repaired by another one, so a group that passes clears each of its members.)
list=$1; wt=${2:-/tmp/mutv}
mkdir -p /tmp/confirm
head=$(git -C /repo rev-parse --short=8 HEAD)
if [ ! -d $wt ]; then git -C /repo worktree add -f --detach $wt HEAD >/dev/null 2>&1 || exit 2; fi
cd $wt || exit 2
cp $list /tmp/confirm/combo.todo
k=0
while [ -s /tmp/confirm/combo.todo ]; do
  k=$((k+1))
  git checkout -q -- . ; git clean -fdq -e target -e target-verif ; git checkout -q --detach $(git -C /repo rev-parse HEAD)
  names=""; : > /tmp/confirm/combo.next
  while read name patch; do
    [ -z "$name" ] && continue
    if git apply --check "$patch" 2>/dev/null && git apply "$patch" 2>/dev/null; then names="$names $name"; else echo "$name $patch" >> /tmp/confirm/combo.next; fi
  done < /tmp/confirm/combo.todo
  if [ -z "$names" ]; then echo "UNAPPLICABLE: $(cat /tmp/confirm/combo.next | tr '\n' ';')" > /tmp/confirm/combo-$k.txt; break; fi
  cargo nextest run --workspace --no-fail-fast --tool-config-file pb:/w/lib/nextest.toml --profile pb --test-threads ${CONFIRM_THREADS:-8} --offline > /tmp/confirm/combo-$k.suite.log 2>&1
  suite=$(python3 /verif/tools/baseline_compare.py $wt/target/nextest/pb/junit.xml | tr '\n' ' ')
  rm -f $wt/target/nextest/pb/junit.xml
  echo "names=[$names ] head=$head suite=[$suite]" > /tmp/confirm/combo-$k.txt
  cat /tmp/confirm/combo-$k.txt
  mv /tmp/confirm/combo.next /tmp/confirm/combo.todo
  find /tmp -maxdepth 1 -name 'git-ai-tmp-*' -mmin +5 -exec rm -rf {} + 2>/dev/null
done
git checkout -q -- . ; git clean -fdq -e target -e target-verif
echo COMBO-DONE
