#!/bin/bash
# confirm.sh <name> <patch> <demo> [worktree]   (scratch worktree default /tmp/mutv; never touches /repo)
#  1. git apply <patch> on a detached checkout of /repo HEAD
#  2. guard-on build of the patched tree -> /tmp/mutbin/<name>/git-ai
#  3. demo with the patched binary (expected exit 1) and with the unpatched one (expected exit 0)
#  4. the pinned nextest suite (guard off) on the patched tree compared with BASELINE.json
# Writes one line to /tmp/confirm/<name>.txt:
#   name=<n> head=<sha> suite=[<baseline_compare output>] demo_mutant_exit=<k> demo_base_exit=<k>
name=$1; patch=$2; demo=$3; wt=${4:-/tmp/mutv}
mkdir -p /tmp/confirm /tmp/mutbin/$name
head=$(git -C /repo rev-parse --short=8 HEAD)
if [ ! -d $wt ]; then git -C /repo worktree add -f --detach $wt HEAD >/dev/null 2>&1 || exit 2; fi
cd $wt || exit 2
git checkout -q -- . ; git clean -fdq -e target -e target-verif ; git checkout -q --detach $(git -C /repo rev-parse HEAD)
if ! git apply "$patch" 2>/tmp/confirm/$name.apply.err; then
  echo "name=$name head=$head DOES-NOT-APPLY" > /tmp/confirm/$name.txt; cat /tmp/confirm/$name.txt; exit 1
fi
RUSTFLAGS="--cfg git_ai_verif" CARGO_TARGET_DIR=$wt/target-verif cargo build --offline --bin git-ai > /tmp/mutbin/$name.build.log 2>&1 || {
  echo "name=$name head=$head BUILD-FAILED" > /tmp/confirm/$name.txt; git checkout -q -- .; exit 1; }
cp $wt/target-verif/debug/git-ai /tmp/mutbin/$name/git-ai
timeout 600 bash $demo /tmp/mutbin/$name/git-ai > /tmp/mutbin/$name.demo_mut.log 2>&1; dm=$?
timeout 600 bash $demo /verif/.build/gitai/debug/git-ai > /tmp/mutbin/$name.demo_base.log 2>&1; db=$?
if [ -z "$CONFIRM_NO_SUITE" ]; then
  cargo nextest run --workspace --no-fail-fast --tool-config-file pb:/w/lib/nextest.toml --profile pb --test-threads ${CONFIRM_THREADS:-8} --offline > /tmp/mutbin/$name.suite.log 2>&1
  suite=$(python3 /verif/tools/baseline_compare.py $wt/target/nextest/pb/junit.xml | tr '\n' ' ')
  rm -f $wt/target/nextest/pb/junit.xml
else
  suite="skipped"
fi
git checkout -q -- . ; git clean -fdq -e target -e target-verif
echo "name=$name head=$head suite=[$suite] demo_mutant_exit=$dm demo_base_exit=$db" > /tmp/confirm/$name.txt
cat /tmp/confirm/$name.txt
find /tmp -maxdepth 1 -name 'git-ai-tmp-*' -mmin +5 -exec rm -rf {} + 2>/dev/null
exit 0
