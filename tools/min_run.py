"""python3 tools/min_run.py C02 quick 1 373 -> generates run, minimises, writes replays/dbg-<idx>.json"""
import sys, json, os
sys.path.insert(0,'/verif')
from gaisim import runner
prop, tier, seed, idx = sys.argv[1], sys.argv[2], int(sys.argv[3]), int(sys.argv[4])
pool = runner.Pool(16)
try:
    r = next(iter(pool.imap([(prop, tier, seed, idx, "gen", None)])))
    if r.get('error'): print(r['error']); sys.exit(2)
    v = r.get('violation')
    if not v: print('no violation'); sys.exit(0)
    print('found', v.get('monitor'), v.get('class'))
    t, v2, used = runner.minimise(pool, prop, r['trace'], v)
    t = dict(t); t['property']=prop; t['violation']=v2
    out='/verif/replays/dbg-%s-%d.json' % (prop, idx)
    json.dump(t, open(out,'w'), indent=1)
    print('minimised to', len(t['ops']), 'ops with', used, 'runs ->', out)
finally:
    pool.close()
