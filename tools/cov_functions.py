#!/usr/bin/env python3
"""List, per source file of /repo/src, the functions the simulated runs never executed and the
functions only partly executed (from `llvm-cov export` JSON).  Generic instantiations are merged by
(file, first line)."""
import json
import re
import sys

d = json.load(open(sys.argv[1]))
only = sys.argv[2:]  # optional file-name filters
funcs = {}
for f in d["data"][0]["functions"]:
    fn = f["filenames"][0]
    if not fn.startswith("/repo/src/"):
        continue
    regs = f["regions"]
    line = regs[0][0]
    key = (fn[len("/repo/src/"):], line)
    name = f["name"]
    m = re.findall(r"\d+([A-Za-z_][A-Za-z0-9_]*)", name)
    short = name
    ent = funcs.setdefault(key, {"name": short, "count": 0, "regions": {}})
    ent["count"] += f["count"]
    for r in regs:
        if r[7] != 0:   # code regions only
            continue
        k = tuple(r[:4])
        ent["regions"][k] = ent["regions"].get(k, 0) + r[4]

try:
    import subprocess
    def demangle(names):
        p = subprocess.run(["rustfilt"], input="\n".join(names), capture_output=True, text=True)
        return p.stdout.splitlines() if p.returncode == 0 else names
except Exception:
    demangle = lambda n: n

by_file = {}
for (fn, line), e in funcs.items():
    if only and not any(o in fn for o in only):
        continue
    tot = len(e["regions"])
    hit = sum(1 for c in e["regions"].values() if c > 0)
    by_file.setdefault(fn, []).append((line, e["name"], e["count"], hit, tot))

for fn in sorted(by_file):
    rows = sorted(by_file[fn])
    never = [r for r in rows if r[2] == 0]
    print("== %s: %d functions, %d never executed" % (fn, len(rows), len(never)))
    for line, name, cnt, hit, tot in rows:
        if "test" in name and "tests" in name:
            continue
        if cnt == 0:
            print("   NEVER  %s:%d %s" % (fn, line, name[-70:]))
        elif tot and hit * 10 < tot * 6:
            print("   PART   %s:%d %s  regions %d/%d" % (fn, line, name[-70:], hit, tot))
