#!/usr/bin/env python3
"""Builds /verif/seeded/R2-<agent>-p<n>/ (patch.diff, demo.sh, AGENT_README.md, meta.json) for the round-2 seeded
changes from the agents' deliverables (/tmp/deliver) and my own confirmation results (/tmp/confirm/*.txt), and prints
the DESIGN.md table.  Only changes whose confirmation is complete and positive are kept."""
import json
import os
import re
import shutil
import sys

# (agent dir, n) -> (property, needs-to-manifest, caught by, first try?, what had to be added)
R2 = {
    ("C01", 2): ("C01", "an agent that reports its edit from an UNSAVED editor buffer (dirty_files differs from the disk), the editor saving afterwards, then a commit",
                 "C01 ledger.note", False, "agents reporting from unsaved buffers (`dirty` edit ops, C01 and all history workloads)"),
    ("C02", 2): ("C02", "interactive rebase that reorders commits touching different files onto a base that leaves the AI files alone (final tree equal, pairs not)",
                 "C02 ledger.blame, C15 pair.blame", False, "the fastpath family (C15's reorder class) is now also a C02/C03 family"),
    ("C02b", 1): ("C02", "AI lines pending through INITIAL only (partial commit), then commit --amend that leaves that file out, then commit of the file",
                  "C02 ledger.blame", False, "family partial_amend, variant 'other file stays pending'"),
    ("C02b", 2): ("C02", "git stash push -- 'dir/*' (glob pathspec), a commit in between, pop, commit",
                  "C02 ledger.blame", False, "pathspec spellings in stash_pathspec; predicate stash_pop_shift narrowed (it had absorbed the violation)"),
    ("C03", 1): ("C03", "INITIAL-only claim on a file + git checkout -- <file> + human lines at the same numbers", "C03 ledger.blame", True, ""),
    ("C03", 2): ("C03", "INITIAL claim + git reset --hard with target == HEAD + human lines at those numbers", "C03 ledger.blame", True, ""),
    ("C04", 1): ("C04", "one contiguous AI block whose head stays unstaged while its tail is committed (git add -p split)", "C04 ledger.note", False,
                 "sub-hunk staging (hist.split_insertions)"),
    ("C04", 2): ("C04", "after a partial commit: human checkpoint on the still-pending unchanged file, human lines inserted above the pending AI lines, commit",
                 "C04 ledger.note / ledger.blame", True, ""),
    ("C05", 1): ("C05", "AI-attributed file with a space in its name + rebase / cherry-pick onto a base where that file differs", "C05 notes.invariant (line_beyond_file)", True, ""),
    ("C05", 2): ("C05", "two different notes for the same commit on the two sides of a notes merge (add/add conflict), then fetch / pull / push",
                 "C10 sync.safety (note unparsable after sync)", False, "C10 foreign-note episode"),
    ("C06", 3): ("C06", "the real git dies by a signal other than INT/TERM/HUP/QUIT and the caller reads the raw wait status", "C06 twin.exit", False,
                 "aliases whose shell kills git (diekill / dieterm / diepipe / diehup) and exits 3 / 200"),
    ("C06", 4): ("C06", "a proxied git push in a repository whose remote has notes: .git/FETCH_HEAD is rewritten", "C06 twin.state (in_progress.FETCH_HEAD)", False,
                 "FETCH_HEAD in the compared state; push after pull in the pull family"),
    ("C07", 1): ("C07", "the pre-hook's `git rev-parse stash@{0}` fails during stash pop, two stash entries (older one AI), pop of the human one, commit",
                 "C07 fault.followup (human_line_reported_ai)", False, "target stash_pop_two; follow-up after every fault of the stash targets"),
    ("C08", 1): ("C08", "one session edits two files, one is committed (raw prompt parked in INITIAL), the other is added with commit --amend without a new AI checkpoint",
                 "C08 notes.scan", False, "family partial_amend"),
    ("C08", 2): ("C08", "remote configured through url.<base>.insteadOf and an exclude pattern that matches the expanded URL only", "C08 notes.scan", False,
                 "two insteadOf configurations; the mode model expands URLs"),
    ("C09", 1): ("C09", "git-ai blame -C -C -C on a file that received a block copied from another file written by the same commit", "C09 blame.cross", False,
                 "family copies, option sets -C -C -C / -C -C / -M -C"),
    ("C09", 2): ("C09", "a repository created with --object-format=sha256", "C09 blame.cross (every format empty)", False, "SHA-256 repositories in 12 % of the C09 runs"),
    ("C10", 1): ("C10", "a notes push racing with another clone's earlier notes push while the tracking ref is stale", "C10 sync.convergence", True, ""),
    ("C10", 2): ("C10", "git push --force-with-lease <remote> <branch>", "C10 sync.convergence", False, "eight spellings of git push"),
    ("C11", 1): ("C11", "THREE checkpoint processes on one working log: P1 holds the lock, P2 waits, P1 releases and unlinks the lock file, P3 arrives",
                 "C11 sched.linearizable (ckpt_three)", True, ""),
    ("C11", 2): ("C11", "refs/notes/ai moving between the batch writer's rev-parse and its fast-import (commit in a linked worktree during a rebase)",
                 "C11 sched.linearizable (rebase_vs_commit)", True, ""),
    ("C12", 1): ("C12", "rename detection pairing a deleted file with a similar new file that carries AI lines, under diff.renames=true (the default)",
                 "C12 pair.notes", False, "knobs diff.renames=false/true, diff.renameLimit; renames variant 'rewritten as a new file'"),
    ("C12", 2): ("C12", "core.quotePath=false + a file name with a non-ASCII character and a quote-forcing one", "C12 pair.notes", True, "(same mechanism as round-1 C12-patch)"),
    ("C13", 1): ("C13", "hooks mode: cherry-pick stopping on a conflict, an abandoned git commit, cherry-pick --abort, then an ordinary AI commit", "C13 pair.notes", True, ""),
    ("C13", 2): ("C13", "hooks mode: git pull --rebase that replays a local commit, then an AI commit", "C13 pair.notes", True, "(pull family)"),
    ("C14", 1): ("C14", "a checkpoint covering two files, a later checkpoint covering one of them, a further change to the other", "C14 pair.notes", None, ""),
    ("C14", 2): ("C14", "agent text fully replaced by a person + human checkpoint, another human edit + explicit human checkpoint", "C14 pair.notes", None, ""),
    ("C15", 1): ("C15", "rebase -i that reorders two AI commits while upstream has not moved (final tree equal)", "C15 pair.blame", True, ""),
    ("C15", 2): ("C15", "rebase -i stopping at edit, an agent creates a new file, commit --amend, rebase --continue", "C15 pair.notes", True, ""),
    ("C19", 1): ("C19", "an AI-attributed file ignored at stats time but not at checkpoint time (stats --ignore <file>)", "C19 stats.identities", True, ""),
    ("C19", 2): ("C19", "two sessions whose overridden-line counts each fit under the mixed cap but together exceed it, partial commit", "C19 stats.identities (ai_additions_exceed_added)", False,
                 "stats_mix variant override_pressure"),
    ("C20", 1): ("C20", "VS Code native Copilot PostToolUse payload with a RELATIVE path whose first character is multi-byte", "C20 hook.delivery (exit 101, panic)", False,
                 "second event shape per preset, multi-byte path kinds"),
    ("C20", 2): ("C20", "one report listing an outer-repository file before a nested-repository file, started from a workspace root that is no repository",
                 "C20 hook.state (file_not_recorded_in_the_repository_that_contains_it)", False, "multi-repository reports with a positive oracle"),
    ("C10b", 1): ("C10", "a clone on its first notes sync (no local notes ref, remote has notes) that commits while the background notes fetch of git fetch is in flight",
                  "C11 sched.linearizable (first_sync_fetch_vs_commit)", False, "scenario first_sync_fetch_vs_commit; helper threads of a process are scheduled as parties by the controller"),
    ("C10b", 2): ("C10", "pull.rebase=merges / interactive in the configuration and a plain git pull over diverged history", "C02 abort.state / ledger.blame (pull family)", False,
                  "pull family: rebase mode and autostash through configuration"),
    ("C11b", 1): ("C11", "two linked worktrees: rebase stops on a conflict in one, a rebase completes in the other, then rebase --continue in the first",
                  "C02 ledger.blame (worktree_rebases)", False, "family worktree_rebases (op add_worktree)"),
    ("C11b", 2): ("C11", "a partial commit (INITIAL written) and another agent's checkpoint that lands after HEAD moved but before post_commit writes INITIAL",
                  "C11 sched.linearizable (ckpt_after_head_moved)", False, "scenario ckpt_after_head_moved with a start constraint (hold) in the controller"),
    ("C13b", 1): ("C13", "hooks mode: rebase -i squash / fixup where a file is touched only by the folded-in commit", "C13 pair.notes", False,
                  "rebase_i variant: every commit of the branch works in a file of its own"),
    ("C13b", 2): ("C13", "hooks mode: detached HEAD, backward reset --soft / --mixed over AI commits, re-commit", "C13 pair.notes", False,
                  "reset_recommit variant: detached HEAD"),
}
DROPPED = {
    ("C01", 1): "same mechanism as round-1 C01-patch (ASCII-only whitespace test); caught by C01 at once",
    ("C06", 1): "same mechanism as round-1 C06-patch2 (stdin-fed internal calls run user hooks); caught by C06 at once",
    ("C06", 2): "same mechanism as round-1 C06-patch (backslash in single-quoted alias words); caught by C06 at once",
    ("C02", 1): "neutralised by fix 5a65e6bf (the change relied on cherry-pick --abort leaving the Start event open): its demo passes on the repaired tree",
    ("C07", 2): "neutralised by fix 5a65e6bf (needs a stale CherryPickStart after an aborted cherry-pick): its demo passes on the repaired tree",
}


def main():
    sys.path.insert(0, os.path.dirname(os.path.abspath(__file__)))
    from r4_seeded import load_confirm
    conf = {}
    for name, c in load_confirm().items():
        if not name.startswith("r2-") or "demo_with" not in c:
            continue
        suite = c.get("suite") or (c.get("suite_combined") or {}).get("suite")
        conf[name] = {"head": c.get("head"), "suite": suite, "missing": [], "demo_exit_with_change": c["demo_with"],
                      "demo_exit_without_change": c["demo_without"], "suite_combined_with": (c.get("suite_combined") or {}).get("applied_together")}
    rows = []
    for (agent, n), (prop, needs, caught, first, added) in sorted(R2.items()):
        name = "r2-%s-p%d" % (agent, n)
        c = conf.get(name)
        ok = bool(c) and c.get("demo_exit_with_change") == 1 and c.get("demo_exit_without_change") == 0 and \
            isinstance(c.get("suite"), dict) and c["suite"]["missing_from_pass"] == 0
        status = "confirmed" if ok else ("pending" if not c else "NOT confirmed: %s" % json.dumps(c)[:200])
        rows.append((agent, n, prop, needs, caught, first, added, status))
        if not ok or "--write" not in sys.argv:
            continue
        d = "/verif/seeded/R2-%s-p%d" % (agent, n)
        os.makedirs(d, exist_ok=True)
        pn = "" if n == 1 else str(n)
        shutil.copy("/verif/seeded/r2-deliverables/%s/patch%s.diff" % (agent, pn), d + "/patch.diff")
        shutil.copy("/verif/seeded/r2-deliverables/%s/demo%s.sh" % (agent, pn), d + "/demo.sh")
        shutil.copy("/verif/seeded/r2-deliverables/%s/README.md" % agent, d + "/AGENT_README.md")
        meta = {"name": "R2-%s-p%d" % (agent, n), "breaks_property": prop,
                "written_by": "independent sub-agent given only the property text (PROPERTY.md) and a scratch worktree of /repo; nothing from /verif",
                "needs_to_manifest": needs, "detected_by": "./check %s quick (GAISIM_GITAI=<binary built from /repo HEAD + patch.diff with --cfg git_ai_verif>): %s" % (caught.split(" ")[0], caught),
                "caught_as_first_built": first, "added_to_catch_it": added,
                "confirmed_by_me": {"applies_to": c["head"], "demo_exit_with_change": c["demo_exit_with_change"],
                                    "demo_exit_without_change": c["demo_exit_without_change"], "pinned_suite_with_change": c["suite"],
                                    "suite_missing_tests": c.get("missing", []),
                                    "suite_run_with_these_changes_applied_together": c.get("suite_combined_with")},
                "what_i_ran": "/tmp/confirm.sh in a scratch worktree (removed afterwards): git apply on /repo HEAD; the pinned nextest suite on the patched tree compared with BASELINE.json (the 802 *_in_worktree failures are the environment's, identical on the unchanged tree); demo.sh with the patched and the unpatched binary; the quick check against a guard-on build of the patched tree"}
        with open(d + "/meta.json", "w") as f:
            json.dump(meta, f, indent=1)
    print("| change | breaks | needs | caught by | first try? | status |")
    print("|---|---|---|---|---|---|")
    for agent, n, prop, needs, caught, first, added, status in rows:
        ft = "yes" if first else ("no → " + added if first is False else "?")
        print("| R2-%s-p%d | %s | %s | %s | %s | %s |" % (agent, n, prop, needs, caught, ft, status))
    print()
    for (agent, n), why in sorted(DROPPED.items()):
        print("* R2-%s-p%d not kept: %s" % (agent, n, why))


if __name__ == "__main__":
    main()
