import json, sys, xml.etree.ElementTree as ET
base = json.load(open('/root/.vp/BASELINE.json'))
want = set(base['stable_pass'])
root = ET.parse(sys.argv[1]).getroot()
passed = set()
failed = set()
for ts in root.iter('testsuite'):
    for tc in ts.iter('testcase'):
        name = '%s::%s' % (ts.get('name'), tc.get('name')) if not tc.get('classname') else '%s::%s' % (tc.get('classname'), tc.get('name'))
        bad = any(c.tag in ('failure', 'error') for c in tc)
        (failed if bad else passed).add(name)
missing = sorted(want - passed)
print('baseline stable_pass=%d passed_now=%d failed_now=%d missing_from_pass=%d' % (len(want), len(passed), len(failed), len(missing)))
for m in missing[:20]:
    print('  MISSING', m)
sys.exit(1 if missing else 0)
