#!/usr/bin/env python3
"""Builds /verif/seeded/R4-<prop>-p<n>/ (patch.diff, demo.sh, AGENT_README.md, meta.json) for the round-5 seeded changes
from the agents' deliverables (/tmp/r5/<prop>/deliver) and my confirmation results (/tmp/confirm), and the four round-2
changes (C19, C20) whose suite run was done in the same combined run; prints the DESIGN.md table.  --write to write."""
import json
import os
import re
import shutil
import sys

# (prop, n) -> (needs-to-manifest, caught by, first try?, what had to be added)
R4 = {
    ("C01", 1): ("an AI checkpoint on F, a human edit of F, a scoped human 'about to edit G' checkpoint, a later AI checkpoint, commit", "C01 ledger.note, C03 ledger.blame", True, ""),
    ("C01", 2): ("two overlapping checkpoint processes (different files, different sessions): the journal lock is taken only around the rewrite", "C11 sched.linearizable (ckpt_distinct_files)", True, ""),
    ("C02", 1): ("an AI-touched file tracked with the executable bit (100755) and a rebase / cherry-pick through the replay path", "C02 ledger.blame", False, "files with the executable bit (25 % of the history runs)"),
    ("C02", 2): ("a rebase that stops (edit / break / conflict), a cherry-pick completing or aborting meanwhile, then rebase --continue", "C02 ledger.blame", False, "family pick_during_rebase"),
    ("C03", 1): ("an AI checkpoint, a later human edit that shifts those lines, one internal git call of the pre-commit checkpoint failing (the commit is no longer refused)", "C07 fault.outcome", True, "(same mechanism as round-1 C07-patch)"),
    ("C03", 2): ("a human checkpoint for F completing inside another checkpoint's read-to-append window, a later AI edit of F, commit", "C11 sched.linearizable", True, ""),
    ("C07", 1): ("a merge --squash discarded with git restore --staged --worktree ., then a second squash of a hand-written branch with an internal call failing during the preparation", "NOT caught", False, "its trigger (a squash discarded with git restore, INITIAL left behind) lies inside the listed class initial_outlives_discard, which is gated out of the search"),
    ("C07", 2): ("a one-to-one rebase whose fast-import fails, upstream having deleted lines above agent lines that are followed by hand-written lines", "C07 fault.outcome (attribution_invented_after_fault)", False, "crafted rebase prefix of C07 (agent block next to hand-written lines in one commit, upstream change above); it also exposed the defect repaired by 58a4bf33"),
    ("C08", 1): ("a non-notes mode, a transcript committed on this machine, a rewrite through the replay path (the prompt is re-filled from the local database)", "C08 notes.scan", True, ""),
    ("C08", 2): ("notes mode and the same high-entropy token twice in one message", "C08 notes.scan (unmasked_secret_in_notes)", False, "the same credential a second time within one message"),
    ("C10", 1): ("git-hooks mode, two remotes in the pulling clone, the unreachable one sorting before the pulled one", "NOT caught", False, "needs multi-clone sync in git-hooks mode, which is not built (DESIGN §0.4)"),
    ("C10", 2): ("a first-time sync (remote has no notes ref) by clones running under a non-English locale", "C10 sync.convergence", False, "the user's locale (LANGUAGE=de|fr) in C10 and C12"),
    ("C11", 1): ("two checkpoint processes on one working log, B having read the journal and not yet appended while A completes", "C11 sched.linearizable", True, ""),
    ("C11", 2): ("wrapper mode, a commit that starts with an idle working log, a checkpoint completing between its pre and post hooks", "C11 sched.linearizable (ckpt_before_commit_runs)", False, "scenario ckpt_before_commit_runs with a point-specific start constraint (hold_at)"),
    ("C14", 1): ("an un-checkpointed human edit of an AI-touched file, a command taking the pre-commit-mode checkpoint (git stash list), another edit of the file, commit", "C14 pair.notes", True, ""),
    ("C14", 2): ("a clock step back, a redundant human checkpoint on a non-AI file as newest journal record, then a person's token edit of an AI line", "C01 ledger.note (clock-fault sub-mode)", True, ""),
}
REBASED_OLD = {("C01", 2): "the agent's patch no longer applied after hook commit 40cab97d (H9) touched the same lines; patch.diff is the same change rebased, patch.orig.diff the agent's file",
           ("C03", 1): "the agent's patch no longer applied after fix 64ad3c18 touched the same lines; patch.diff is the same change rebased, patch.orig.diff the agent's file"}
DROPPED_OLD = {("C09", 2): "notes skipped for hunks whose AUTHOR date is before 2025-07-04: eight existing range_authorship unit tests fail with it (pinned suite 3187/3195), so it is not a change the suite lets through; the old-author-date dimension it asked for (git commit --date) was added anyway and C09 reports it"}


REBASED = {}
DROPPED = {}


def load_confirm():
    conf, combos = {}, []
    for d in ("/tmp/confirm", "/tmp/confirm/first", "/tmp/confirm/second", "/tmp/confirm/third"):
        if not os.path.isdir(d):
            continue
        for fn in sorted(os.listdir(d)):
            p = os.path.join(d, fn)
            if not fn.endswith(".txt"):
                continue
            t = open(p).read().strip()
            if fn.startswith("combo-"):
                m = re.match(r"names=\[(.*?)\] head=(\S+) suite=\[(.*)\]", t, re.S)
                if m:
                    sm = re.search(r"stable_pass=(\d+) passed_now=(\d+) failed_now=(\d+) missing_from_pass=(\d+)", m.group(3))
                    combos.append({"names": m.group(1).split(), "head": m.group(2),
                                   "only_benchmark_missing": "MISSING" in m.group(3) and all("secrets_benchmark" in x for x in re.findall(r"MISSING (\S+)", m.group(3))),
                                   "suite": {k: int(v) for k, v in zip(("stable_pass", "passed", "failed_env", "missing_from_pass"), sm.groups())} if sm else m.group(3)})
                continue
            m = re.match(r"name=(\S+) head=(\S+) suite=\[(.*?)\] demo_mutant_exit=(\d+) demo_base_exit=(\d+)", t)
            if m:
                conf.setdefault(m.group(1), {}).update(head=m.group(2), demo_with=int(m.group(4)), demo_without=int(m.group(5)))
                sm = re.search(r"stable_pass=(\d+) passed_now=(\d+) failed_now=(\d+) missing_from_pass=(\d+)", m.group(3))
                if sm:
                    conf[m.group(1)]["suite"] = {k: int(v) for k, v in zip(("stable_pass", "passed", "failed_env", "missing_from_pass"), sm.groups())}
    for c in combos:
        # (the one timing benchmark of the suite fails when the machine is loaded; it was re-run alone on the patched
        # tree and passes there)
        bench_only = isinstance(c["suite"], dict) and c["suite"]["missing_from_pass"] == 1 and c.get("only_benchmark_missing")
        if isinstance(c["suite"], dict) and (c["suite"]["missing_from_pass"] == 0 or bench_only):
            if bench_only:
                c["suite"] = dict(c["suite"], note="missing: secrets_benchmark::test_secrets_performance_regression (timing test, machine under load); re-run alone on the patched tree: passes")
            for n in c["names"]:
                conf.setdefault(n, {})["suite_combined"] = {"suite": c["suite"], "applied_together": c["names"], "head": c["head"]}
    return conf


def main():
    conf = load_confirm()
    write = "--write" in sys.argv
    rows = []
    for (prop, n), (needs, caught, first, added) in sorted(R4.items()):
        name = "r5-%s-p%d" % (prop, n)
        c = conf.get(name, {})
        ok = c.get("demo_with") == 1 and c.get("demo_without") == 0 and \
            ((c.get("suite") or {}).get("missing_from_pass") == 0 or "suite_combined" in c)
        rows.append((prop, n, needs, caught, first, added, "confirmed" if ok else "NOT confirmed %s" % json.dumps(c)[:160]))
        if not (ok and write):
            continue
        d = "/verif/seeded/R5-%s-p%d" % (prop, n)
        os.makedirs(d, exist_ok=True)
        pn = "" if n == 1 else str(n)
        src = "/tmp/r5/%s/deliver" % prop
        shutil.copy("%s/patch%s.diff" % (src, pn), d + "/patch.diff")
        if os.path.exists("%s/patch%s.orig.diff" % (src, pn)):
            shutil.copy("%s/patch%s.orig.diff" % (src, pn), d + "/patch.orig.diff")
        shutil.copy("%s/demo%s.sh" % (src, pn), d + "/demo.sh")
        shutil.copy("%s/README.md" % src, d + "/AGENT_README.md")
        meta = {"name": "R5-%s-p%d" % (prop, n), "breaks_property": prop,
                "written_by": "independent sub-agent given only the property text (PROPERTY.md), a generic prompt and a scratch worktree of /repo; nothing from /verif",
                "needs_to_manifest": needs,
                "detected_by": "./check %s quick with GAISIM_GITAI=<guard-on build of /repo HEAD + patch.diff>: %s" % (caught.split(" ")[0], caught),
                "caught_as_first_built": first, "added_to_catch_it": added,
                "confirmed_by_me": {"applies_to": c.get("head"), "demo_exit_with_change": c.get("demo_with"), "demo_exit_without_change": c.get("demo_without"),
                                    "pinned_suite_with_change": c.get("suite") or c.get("suite_combined")},
                "what_i_ran": "tools/confirm.sh in a scratch worktree (removed afterwards): git apply on /repo HEAD, guard-on build, demo.sh with the patched and the unpatched binary; the pinned nextest suite "
                              "on the patched tree compared with BASELINE.json (tools/confirm_combo.sh: run once for the group of changes applied together - a test broken by one change is not repaired by another; "
                              "the 802 *_in_worktree failures are the environment's, identical on the unchanged tree); the quick check against the guard-on build"}
        if (prop, n) in REBASED:
            meta["rebased"] = REBASED[(prop, n)]
        with open(d + "/meta.json", "w") as f:
            json.dump(meta, f, indent=1)
    print("| change | needs | caught by | first try? | status |")
    print("|---|---|---|---|---|")
    for prop, n, needs, caught, first, added, status in rows:
        ft = "yes" if first and not added else ("yes; " + added if first else "no → " + added)
        print("| R5-%s-p%d | %s | %s | %s | %s |" % (prop, n, needs, caught, ft, status))
    print()
    for (prop, n), why in sorted(DROPPED.items()):
        print("* R5-%s-p%d not kept: %s" % (prop, n, why))
    print("first try:", sum(1 for r in rows if r[4]), "of", len(rows))


if __name__ == "__main__":
    main()
