#!/bin/sh
# Runs the repository's pinned baseline with the verification guard OFF and compares with BASELINE.json.
cd /repo && cargo nextest run --workspace --no-fail-fast --tool-config-file pb:/w/lib/nextest.toml --profile pb --test-threads 8 --offline >/tmp/gaisim_baseline_off.log 2>&1
python3 /verif/tools/baseline_compare.py /repo/target/nextest/pb/junit.xml
