#!/usr/bin/env python3
"""Builds /verif/seeded/R4-<prop>-p<n>/ (patch.diff, demo.sh, AGENT_README.md, meta.json) for the round-4 seeded changes
from the agents' deliverables (/tmp/r4/<prop>/deliver) and my confirmation results (/tmp/confirm), and the four round-2
changes (C19, C20) whose suite run was done in the same combined run; prints the DESIGN.md table.  --write to write."""
import json
import os
import re
import shutil
import sys

# (prop, n) -> (needs-to-manifest, caught by, first try?, what had to be added)
R4 = {
    ("C01", 1): ("three or more consecutive lines cut out of the middle of a multi-line block written by one agent report and pasted elsewhere in the file before the commit",
                 "C01 ledger.note (ai_line_reported_human)", False, "move relaxation tightened (the human is an acceptable author of a moved line only when the line, or the line it modifies, was committed); blocks up to 10 lines under the move hazard"),
    ("C01", 2): ("an agent report whose process is killed in the middle of a snapshot write (truncated content-addressed blob), the same content reported again, one more checkpoint of that file",
                 "C14 ledger.blame one-sided (after_crashed_report_human_line_reported_ai)", False, "hooks H9 (points at the snapshot writes) + crash-and-redeliver perturbation of C14"),
    ("C02", 1): ("git rebase [-i] --keep-base <upstream> (a rebase that does not replay onto the named upstream) after the upstream advanced, commits really rewritten",
                 "C02 ledger.blame", False, "rebase option spellings (--keep-base, --no-ff, --apply, --rebase-merges, ...) in the rebase families"),
    ("C02", 2): ("interactive reorder of two commits touching the same AI file while the last pair stays identical", "C02 ledger.blame, C15 pair.blame", True, ""),
    ("C03", 1): ("two stash entries (top one AI, popped one human on the same lines), the entry named by bare index / sha / refs/stash@{n}, a commit since the stashes",
                 "C03 ledger.blame (human_line_reported_ai)", False, "family stash_two (every spelling of a stash entry); known-finding predicate stash_pop_shift narrowed (it had absorbed the violation); the family also exposed the bare-index defect repaired by 64ad3c18"),
    ("C03", 2): ("file F already in the working log, a manual edit of F, then a bracketed AI edit of another file G, commit", "C03 ledger.blame", True, ""),
    ("C04", 1): ("a committed AI line with two or more separate unstaged insertion hunks above it in the same file", "C04 ledger.note", True, ""),
    ("C04", 2): ("a partial commit leaving an AI-created untracked file behind, a commit with no checkpoint at all, then the left-over file committed", "C04 ledger.note", True, ""),
    ("C05", 1): ("interactive rebase that re-orders commits touching the same AI file (same count, same final content)", "C15 pair.blame; C05 notes.invariant (line_beyond_file, shortcut_taken)", True,
                 "(C05 itself only after the H7 reach probe told shortcut-written notes apart from the listed replay-path class)"),
    ("C05", 2): ("two different notes for one commit on the two sides of a notes merge, then any sync in the clone that has its own note", "C10 sync.safety (note unparsable after sync)", True, ""),
    ("C06", 1): ("the reader closes the pipe while git is still writing (git dies of SIGPIPE)", "C06 twin.exit", True, ""),
    ("C06", 2): ("user hooks through the GLOBAL core.hooksPath, managed hooks installed, then the global core.hooksPath changed", "C06 twin.state", True, ""),
    ("C07", 1): ("a hook body that panics on a failed internal call whose message is longer than 512 bytes with a multi-byte character straddling byte 512 (localized git)",
                 "C07 fault.outcome (exit_status_changed_after_git_ran)", False, "simulated failure text made long, localized and of four-byte characters; quick tier fails EVERY internal call at least once however long the command (the cap of 60 had cut the post-hook calls of merge --squash off)"),
    ("C07", 2): ("a partially staged file with unstaged insertions above the AI lines, human lines added by the same commit below them, and exactly the post-commit git diff -U0 <new commit> failing",
                 "C07 fault.outcome (attribution_invented_after_fault)", False, "target commit_hunks ('git add, keep typing, git commit' and hunk-staged blocks)"),
    ("C08", 1): ("default mode with the CAS path on (custom api_base_url) and the insert into git-ai's sqlite queue failing (database locked)", "C08 notes.scan", False,
                 "two CAS configurations + fault db.busy (the database is write-locked by another process during one commit)"),
    ("C08", 2): ("one session edits two files, one is committed, git commit --amend with no new AI checkpoint", "C08 notes.scan", True, ""),
    ("C09", 1): ("blame -C over a commit that contributes lines under two paths", "C09 blame.cross", True, ""),
    ("C10", 1): ("diverged notes + one failed or crashed step between the fetch into the tracking ref and the merge", "C10 sync.convergence", False,
                 "targeted step faults: a named step of the notes sync (fetch / merge / push / existence checks) fails or the wrapper dies there, after a forced divergence"),
    ("C10", 2): ("an unpushed note, then git gc / pack-refs (the notes ref gets packed), then any sync", "C10 sync.convergence", False, "step 'pack' (pack-refs / gc in a clone or on the server)"),
    ("C11", 1): ("three overlapping parties on one working log (holder, waiter that opened the lock file before the release, newcomer)", "C11 sched.linearizable (ckpt_three)", True, ""),
    ("C11", 2): ("refs/notes/ai moving between the tip lookup and the fast-import of a batched notes update", "C11 sched.linearizable (rebase_vs_commit)", True, ""),
    ("C12", 1): ("core.quotePath=false + a file name with a non-ASCII character and a quote-forcing one", "C12 pair.notes", True, ""),
    ("C12", 2): ("git -C <dir> where <dir> is a subdirectory of the work tree spelled through a symlink", "C12 pair.notes", False, "invocation context symlink_C"),
    ("C13", 1): ("hooks mode: cherry-pick stops on a conflict, a failed git commit, cherry-pick --abort, then an ordinary AI commit", "C13 pair.notes", True, ""),
    ("C13", 2): ("hooks mode: git pull --rebase that rewrites local AI commits while listing refs/notes/ai fails for some remote", "C13 pair.notes", True, ""),
    ("C14", 1): ("AI state in the working log, a staged human-only file with an uncommitted human edit, a command that takes the implicit pre-commit-mode checkpoint (git stash list), the explicit human checkpoint, the agent editing that file",
                 "C14 pair.notes", False, "family staged_mix, stage-as-you-go, implicit-checkpoint commands (stash list / show, commit abandoned for an empty message, commit --dry-run) among the no-op perturbations"),
    ("C14", 2): ("two files with byte-identical content in the journal, a checkpoint changing one, then a checkpoint by another author changing the other", "C01 ledger.note (twin files)", False,
                 "hazard twins (an agent writes two files with identical content in one report) in C01 / C14 / history workloads"),
    ("C15", 1): ("more than 1000 AI-touched files in the rewritten range and the differing file being the first changed path of its pair", "C15 pair.blame (class many)", False,
                 "class 'many' (1001+ files in one agent report); building it exposed the defect repaired by 89c9502b"),
    ("C15", 2): ("an AI-touched file with a space or tab in its name whose content differs after the rebase / cherry-pick", "C15 pair.notes", True, ""),
    ("C19", 1): ("two tool::model keys in the note and a partial commit that leaves human-rewritten AI lines uncommitted", "C19 stats.identities", True, ""),
    ("C19", 2): ("two sessions with truly interleaved ranges in one file", "C19 stats.identities", True, ""),
    ("C20", 1): ("a dirty_files key that is a relative path leaving the repository (../docs/notes.md)", "C20 hook.state", True, ""),
    ("C20", 2): ("one report with an outer-repository file immediately followed by a nested-repository file, started from a workspace root", "C20 hook.state", True, ""),
}
REBASED = {("C01", 2): "the agent's patch no longer applied after hook commit 40cab97d (H9) touched the same lines; patch.diff is the same change rebased, patch.orig.diff the agent's file",
           ("C03", 1): "the agent's patch no longer applied after fix 64ad3c18 touched the same lines; patch.diff is the same change rebased, patch.orig.diff the agent's file"}
DROPPED = {("C09", 2): "notes skipped for hunks whose AUTHOR date is before 2025-07-04: eight existing range_authorship unit tests fail with it (pinned suite 3187/3195), so it is not a change the suite lets through; the old-author-date dimension it asked for (git commit --date) was added anyway and C09 reports it"}


def load_confirm():
    conf, combos = {}, []
    for d in ("/tmp/confirm", "/tmp/confirm/first", "/tmp/confirm/second", "/tmp/confirm/third"):
        if not os.path.isdir(d):
            continue
        for fn in sorted(os.listdir(d)):
            p = os.path.join(d, fn)
            if not fn.endswith(".txt"):
                continue
            t = open(p).read().strip()
            if fn.startswith("combo-"):
                m = re.match(r"names=\[(.*?)\] head=(\S+) suite=\[(.*)\]", t, re.S)
                if m:
                    sm = re.search(r"stable_pass=(\d+) passed_now=(\d+) failed_now=(\d+) missing_from_pass=(\d+)", m.group(3))
                    combos.append({"names": m.group(1).split(), "head": m.group(2),
                                   "suite": {k: int(v) for k, v in zip(("stable_pass", "passed", "failed_env", "missing_from_pass"), sm.groups())} if sm else m.group(3)})
                continue
            m = re.match(r"name=(\S+) head=(\S+) suite=\[(.*?)\] demo_mutant_exit=(\d+) demo_base_exit=(\d+)", t)
            if m:
                conf.setdefault(m.group(1), {}).update(head=m.group(2), demo_with=int(m.group(4)), demo_without=int(m.group(5)))
                sm = re.search(r"stable_pass=(\d+) passed_now=(\d+) failed_now=(\d+) missing_from_pass=(\d+)", m.group(3))
                if sm:
                    conf[m.group(1)]["suite"] = {k: int(v) for k, v in zip(("stable_pass", "passed", "failed_env", "missing_from_pass"), sm.groups())}
    for c in combos:
        if isinstance(c["suite"], dict) and c["suite"]["missing_from_pass"] == 0:
            for n in c["names"]:
                conf.setdefault(n, {})["suite_combined"] = {"suite": c["suite"], "applied_together": c["names"], "head": c["head"]}
    return conf


def main():
    conf = load_confirm()
    write = "--write" in sys.argv
    rows = []
    for (prop, n), (needs, caught, first, added) in sorted(R4.items()):
        name = "r4-%s-p%d" % (prop, n)
        c = conf.get(name, {})
        ok = c.get("demo_with") == 1 and c.get("demo_without") == 0 and \
            ((c.get("suite") or {}).get("missing_from_pass") == 0 or "suite_combined" in c)
        rows.append((prop, n, needs, caught, first, added, "confirmed" if ok else "NOT confirmed %s" % json.dumps(c)[:160]))
        if not (ok and write):
            continue
        d = "/verif/seeded/R4-%s-p%d" % (prop, n)
        os.makedirs(d, exist_ok=True)
        pn = "" if n == 1 else str(n)
        src = "/tmp/r4/%s/deliver" % prop
        shutil.copy("%s/patch%s.diff" % (src, pn), d + "/patch.diff")
        if os.path.exists("%s/patch%s.orig.diff" % (src, pn)):
            shutil.copy("%s/patch%s.orig.diff" % (src, pn), d + "/patch.orig.diff")
        shutil.copy("%s/demo%s.sh" % (src, pn), d + "/demo.sh")
        shutil.copy("%s/README.md" % src, d + "/AGENT_README.md")
        meta = {"name": "R4-%s-p%d" % (prop, n), "breaks_property": prop,
                "written_by": "independent sub-agent given only the property text (PROPERTY.md), a generic prompt and a scratch worktree of /repo; nothing from /verif",
                "needs_to_manifest": needs,
                "detected_by": "./check %s quick with GAISIM_GITAI=<guard-on build of /repo HEAD + patch.diff>: %s" % (caught.split(" ")[0], caught),
                "caught_as_first_built": first, "added_to_catch_it": added,
                "confirmed_by_me": {"applies_to": c.get("head"), "demo_exit_with_change": c.get("demo_with"), "demo_exit_without_change": c.get("demo_without"),
                                    "pinned_suite_with_change": c.get("suite") or c.get("suite_combined")},
                "what_i_ran": "tools/confirm.sh in a scratch worktree (removed afterwards): git apply on /repo HEAD, guard-on build, demo.sh with the patched and the unpatched binary; the pinned nextest suite "
                              "on the patched tree compared with BASELINE.json (tools/confirm_combo.sh: run once for the group of changes applied together - a test broken by one change is not repaired by another; "
                              "the 802 *_in_worktree failures are the environment's, identical on the unchanged tree); the quick check against the guard-on build"}
        if (prop, n) in REBASED:
            meta["rebased"] = REBASED[(prop, n)]
        with open(d + "/meta.json", "w") as f:
            json.dump(meta, f, indent=1)
    print("| change | needs | caught by | first try? | status |")
    print("|---|---|---|---|---|")
    for prop, n, needs, caught, first, added, status in rows:
        ft = "yes" if first and not added else ("yes; " + added if first else "no → " + added)
        print("| R4-%s-p%d | %s | %s | %s | %s |" % (prop, n, needs, caught, ft, status))
    print()
    for (prop, n), why in sorted(DROPPED.items()):
        print("* R4-%s-p%d not kept: %s" % (prop, n, why))
    print("first try:", sum(1 for r in rows if r[4]), "of", len(rows))


if __name__ == "__main__":
    main()
