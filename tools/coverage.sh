#!/bin/bash
# Reach measurement (not a check): which production code of /repo do the simulated runs execute?
#   tools/coverage.sh build                  build a coverage-instrumented git-ai (guard on) into $COV/target
#   tools/coverage.sh run C02 [quick]        run one check against it (no rebuild), counters -> $COV/raw/<id>/
#   tools/coverage.sh report C02 [file...]   per-file line/function coverage + list of never-executed functions
#   tools/coverage.sh report all             union over every property run so far
# Scratch lives under $COV (default /tmp/cov); remove it when done.  Evidence files written by these
# runs are NOT evidence of the registered checks (different binary): the script restores them.
set -e
COV=${COV:-/tmp/cov}
TOOLS=$(ls -d ~/.rustup/toolchains/nightly-x86_64-unknown-linux-gnu/lib/rustlib/*/bin | head -1)
BIN=$COV/target/debug/git-ai
case "$1" in
build)
  mkdir -p $COV
  # (build scripts of an instrumented build write default_*.profraw into the current directory: keep them out of /repo)
  cd /repo && LLVM_PROFILE_FILE=$COV/build-%p.profraw RUSTFLAGS="--cfg git_ai_verif -C instrument-coverage" CARGO_TARGET_DIR=$COV/target cargo build --offline --bin git-ai
  ;;
run)
  id=$2; tier=${3:-quick}
  mkdir -p $COV/raw/$id
  cp /verif/evidence/$id.json $COV/evidence.$id.bak 2>/dev/null || true
  cd /verif
  GAISIM_GITAI=$BIN GAISIM_PROFILE_FILE="$COV/raw/$id/p-%4m.profraw" ./check $id $tier --no-build || true
  cp $COV/evidence.$id.bak /verif/evidence/$id.json 2>/dev/null || true
  ;;
report)
  id=$2; shift 2
  if [ "$id" = all ]; then files=$(ls $COV/raw/*/*.profraw); else files=$(ls $COV/raw/$id/*.profraw); fi
  $TOOLS/llvm-profdata merge -sparse $files -o $COV/$id.profdata
  $TOOLS/llvm-cov report $BIN -instr-profile=$COV/$id.profdata --ignore-filename-regex='/.cargo/|/rustc/' "$@" 2>/dev/null | sed 's#/repo/src/##' > $COV/$id.report.txt
  $TOOLS/llvm-cov export $BIN -instr-profile=$COV/$id.profdata --ignore-filename-regex='/.cargo/|/rustc/' -format=text -skip-expansions 2>/dev/null > $COV/$id.json
  python3 /verif/tools/cov_functions.py $COV/$id.json > $COV/$id.functions.txt
  echo "wrote $COV/$id.report.txt $COV/$id.functions.txt"
  ;;
*) sed -n 2,9p $0 ;;
esac
