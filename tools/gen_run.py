"""python3 tools/gen_run.py C02 quick 1 373 -> generates the run, writes replays/gen-<prop>-<idx>.json (not minimised)"""
import sys, json, os
sys.path.insert(0,'/verif')
from gaisim import runner
prop, tier, seed, idx = sys.argv[1], sys.argv[2], int(sys.argv[3]), int(sys.argv[4])
pool = runner.Pool(1)
try:
    r = next(iter(pool.imap([(prop, tier, seed, idx, "gen", None)])))
    if r.get('error'): print(r['error']); sys.exit(2)
    t = dict(r['trace']); t['property']=prop; t['violation']=r.get('violation')
    out='/verif/replays/gen-%s-%d.json' % (prop, idx)
    json.dump(t, open(out,'w'), indent=1)
    print('violation', r.get('violation') and (r['violation'].get('monitor'), r['violation'].get('class')), '->', out)
finally:
    pool.close()
