#!/bin/bash
# confirm_mutant.sh <name> <prop> <patch> <demo>  : build (guard on), demo with/without, pinned suite; writes /tmp/mutbin/<name>.confirm
name=$1; prop=$2; patch=$3; demo=$4
out=/tmp/mutbin/$name.confirm
{
echo "name=$name prop=$prop patch=$patch"
/verif/tools/mutant.sh build $name $patch | tail -1
echo "--- demo with mutant"
bash $demo /tmp/mutbin/$name/git-ai > /tmp/mutbin/$name.demo_mut.log 2>&1; echo "demo_mutant_exit=$?"
echo "--- demo with base"
bash $demo /verif/.build/gitai/debug/git-ai > /tmp/mutbin/$name.demo_base.log 2>&1; echo "demo_base_exit=$?"
echo "--- suite"
/verif/tools/mutant.sh suite $name $patch | tail -3
} > $out 2>&1
cat $out
