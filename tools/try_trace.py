import sys, json, os
sys.path.insert(0,'/verif')
from gaisim import runner
def run(trace, prop=None):
    pool = runner.Pool(1)
    try:
        r = next(iter(pool.imap([(prop or trace['property'], "replay", 0, 0, "replay", trace)])))
    finally:
        pool.close()
    return r
if __name__=='__main__':
    t=json.load(open(sys.argv[1]))
    subs=sys.argv[2:]
    s=json.dumps(t)
    for sub in subs:
        a,b=sub.split('=>')
        s=s.replace(a,b)
    t=json.loads(s)
    r=run(t)
    print(r.get('error') or r.get('violation'))
