"""replay a trace and keep the world for inspection: python3 tools/keep_replay.py trace.json [upto_step]"""
import sys, json, os, shutil
sys.path.insert(0,'/verif')
from gaisim.props import get_prop
from gaisim.engine import Exec
t=json.load(open(sys.argv[1]))
upto=int(sys.argv[2]) if len(sys.argv)>2 else len(t['ops'])
root='/dev/shm/gaisim.keep/w'
shutil.rmtree('/dev/shm/gaisim.keep',ignore_errors=True)
os.makedirs(root)
ex=Exec(root,t); ex.init()
for i,op in enumerate(t['ops'][:upto]):
    res=ex.apply(op)
    print(i,op['op'],op.get('argv') or sorted(op.get('files',{})),'->',res.get('code'),(res.get('err') or '')[-300:].replace('\n',' | '))
print('world at',root)
env=ex.w.env()
print('env: '+' '.join('%s=%s'%(k,v) for k,v in env.items() if k in('HOME','GIT_CONFIG_GLOBAL','GIT_CONFIG_NOSYSTEM')))
