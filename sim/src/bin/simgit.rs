//! simgit — stand-in for the git executable (git-ai's `git_path` seam).
//!
//! Every git subprocess that git-ai starts (internal calls and the proxied user command) runs
//! this binary instead of git. It numbers the call (shared counter file, flock), records it,
//! asks the plan or the controller for a verdict and then executes / fails / truncates / kills.
//!
//! env:
//!   SIMGIT_REAL   real git (default /usr/bin/git)
//!   SIMGIT_STATE  counter file shared by all calls of one simulated step
//!   SIMGIT_TRACE  file receiving one line per call: idx \t pid \t ppid \t label \t proxied \t argv(json)
//!   SIMGIT_PLAN   `<idx>=<verdict>;...`   verdicts: fail:<code> | short:<bytes> | kill | go
//!   SIMGIT_NETDOWN  substring; any call whose argv contains it fails with 128 (partition)
//!   SIMGIT_MATCH  `<arg>,<arg>..=<verdict>`: every internal call that has all the listed words as whole arguments gets the verdict
//!   GIT_AI_VERIF_SOCK  controller socket: park before the call, obey its verdict
//!   GIT_AI_VERIF_LABEL process label for the controller
use std::io::{BufRead, BufReader, Read, Seek, SeekFrom, Write};
use std::os::unix::process::CommandExt;
use std::process::{Command, Stdio};

fn esc(s: &str) -> String {
    let mut o = String::new();
    for c in s.chars() {
        match c {
            '"' => o.push_str("\\\""),
            '\\' => o.push_str("\\\\"),
            '\n' => o.push_str("\\n"),
            '\t' => o.push_str("\\t"),
            '\r' => o.push_str("\\r"),
            c if (c as u32) < 0x20 => o.push_str(&format!("\\u{:04x}", c as u32)),
            c => o.push(c),
        }
    }
    o
}

fn next_index(state: &str) -> u64 {
    use std::os::unix::io::AsRawFd;
    let mut f = match std::fs::OpenOptions::new().read(true).write(true).create(true).open(state) {
        Ok(f) => f,
        Err(_) => return 0,
    };
    unsafe { libc::flock(f.as_raw_fd(), libc::LOCK_EX) };
    let mut s = String::new();
    let _ = f.read_to_string(&mut s);
    let n: u64 = s.trim().parse().unwrap_or(0) + 1;
    let _ = f.seek(SeekFrom::Start(0));
    let _ = f.set_len(0);
    let _ = write!(f, "{}", n);
    unsafe { libc::flock(f.as_raw_fd(), libc::LOCK_UN) };
    n
}

fn main() {
    let args: Vec<String> = std::env::args().skip(1).collect();
    let real = std::env::var("SIMGIT_REAL").unwrap_or_else(|_| "/usr/bin/git".to_string());
    let label = std::env::var("GIT_AI_VERIF_LABEL").unwrap_or_default();
    let proxied = std::env::var("GITAI_SKIP_MANAGED_HOOKS").map(|v| v == "1").unwrap_or(false)
        && std::env::var_os("SIMGIT_INNER").is_none();
    let pid = std::process::id();
    let ppid = unsafe { libc::getppid() };
    let idx = match std::env::var("SIMGIT_STATE") {
        Ok(s) => next_index(&s),
        Err(_) => 0,
    };
    let argv_json = format!(
        "[{}]",
        args.iter().map(|a| format!("\"{}\"", esc(a))).collect::<Vec<_>>().join(",")
    );
    if let Ok(t) = std::env::var("SIMGIT_TRACE") {
        if let Ok(mut f) = std::fs::OpenOptions::new().create(true).append(true).open(t) {
            let _ = writeln!(f, "{}\t{}\t{}\t{}\t{}\t{}", idx, pid, ppid, label, proxied as u8, argv_json);
        }
    }

    let mut verdict = String::from("go");
    if let Ok(plan) = std::env::var("SIMGIT_PLAN") {
        let key = idx.to_string();
        for item in plan.split(';') {
            if let Some((k, v)) = item.split_once('=') {
                if k == key {
                    verdict = v.to_string();
                }
            }
        }
    }
    if verdict == "go" && !proxied {
        if let Ok(nd) = std::env::var("SIMGIT_NETDOWN") {
            if !nd.is_empty() && args.iter().any(|a| a.contains(&nd)) {
                verdict = "fail:128".to_string();
            }
        }
    }
    if verdict == "go" && !proxied {
        if let Ok(m) = std::env::var("SIMGIT_MATCH") {
            if let Some((words, v)) = m.split_once('=') {
                if !words.is_empty() && words.split(',').all(|w| args.iter().any(|a| a == w)) {
                    verdict = v.to_string();
                }
            }
        }
    }
    if verdict == "go" {
        if let Ok(sock) = std::env::var("GIT_AI_VERIF_SOCK") {
            use std::os::unix::net::UnixStream;
            if let Ok(mut s) = UnixStream::connect(&sock) {
                let msg = format!(
                    "{{\"k\":\"git\",\"pid\":{},\"ppid\":{},\"label\":\"{}\",\"proxied\":{},\"idx\":{},\"argv\":{}}}\n",
                    pid, ppid, esc(&label), proxied, idx, argv_json
                );
                if s.write_all(msg.as_bytes()).is_ok() {
                    let mut line = String::new();
                    let _ = BufReader::new(&s).read_line(&mut line);
                    let line = line.trim();
                    if !line.is_empty() {
                        verdict = line.to_string();
                    }
                }
            }
        }
    }
    // the user's own git command is never a fault target
    if proxied {
        verdict = "go".to_string();
    }

    if let Some(code) = verdict.strip_prefix("fail:") {
        let code: i32 = code.parse().unwrap_or(128);
        // a long, localized, multi-line diagnostic (as a git with a non-English locale prints): its length
        // varies with the call index so that byte offsets fall inside multi-byte characters somewhere
        eprintln!("fatal: simulated git failure (simgit call {})", idx);
        let pad = "x".repeat((idx % 7) as usize);
        for k in 0..8 {
            // (mostly four-byte characters: three of four byte offsets lie inside a character)
            eprintln!(
                "{}ヒント{}：😀😕🙁😟😀😕🙁😟😀😕🙁😟𠮷𠀋𡈽𠮷𠀋𡈽😀😕🙁😟😀😕🙁😟 操作を完了できませんでした",
                pad, k
            );
        }
        std::process::exit(code);
    }
    if verdict == "kill" {
        unsafe { libc::kill(ppid, libc::SIGKILL) };
        std::process::exit(137);
    }
    if let Some(n) = verdict.strip_prefix("short:") {
        let n: usize = n.parse().unwrap_or(0);
        let out = Command::new(&real)
            .args(&args)
            .env("SIMGIT_INNER", "1")
            .stdin(Stdio::inherit())
            .stderr(Stdio::inherit())
            .output();
        match out {
            Ok(o) => {
                let cut = n.min(o.stdout.len());
                let _ = std::io::stdout().write_all(&o.stdout[..cut]);
                let _ = std::io::stdout().flush();
                std::process::exit(o.status.code().unwrap_or(128));
            }
            Err(_) => std::process::exit(128),
        }
    }
    // go: become git
    let err = Command::new(&real).args(&args).exec();
    eprintln!("simgit: cannot exec {}: {}", real, err);
    std::process::exit(127);
}
